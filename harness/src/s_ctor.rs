//! C12: constructors and conversions give the specified contents, independently owned.

use crate::model::{clone_of, orig, Model};
use crate::obs::*;
use crate::s_mut::{finish, Created, GenIter};
use crate::src::Src;
use crate::state::{build, build_with_base, St};
use crate::tok::{drops, ledger_reset, Ids, Tok};
use crate::*;
use circular_buffer::CircularBuffer;

/// `new()`, `default()`: empty, and usable (slots are truly uninitialised memory here, which
/// CBMC treats as nondeterministic)
pub fn ctor_new<const N: usize, const P: u32, S: Src>(s: &mut S) {
    ledger_reset();
    let which = s.bool();
    let buf: CircularBuffer<N, Tok> = if which { CircularBuffer::new() } else { Default::default() };
    let m = Model::new(N);
    let held = Ids::new();
    finish::<N, P>(buf, &m, &held, Created { contents: 0, items: 0, sources: 0, made: 0 });
}

#[cfg(feature = "alloc")]
pub fn ctor_boxed<const N: usize, const P: u32, S: Src>(_s: &mut S) {
    ledger_reset();
    let mut b = CircularBuffer::<N, Tok>::boxed();
    let m = Model::new(N);
    observe_eq(&*b, &m);
    closure_probe(&mut *b);
    chk!(b.len() == 0, "boxed() gives an empty buffer");
    drop(b);
    conserve_flags();
}

macro_rules! arr_of {
    ($m:expr) => {{
        let mut k = 0u8;
        core::array::from_fn::<Tok, { $m }, _>(|_| {
            let t = Tok::new(0x20 + k);
            k += 1;
            t
        })
    }};
}

/// `From<[T; M]>`: keeps the last min(N, M) elements in order, destroys the rest exactly once
pub fn from_array<const N: usize, const M: usize, const P: u32, S: Src>(_s: &mut S) {
    ledger_reset();
    let arr: [Tok; M] = arr_of!(M);
    let buf = CircularBuffer::<N, Tok>::from(arr);
    let mut m = Model::new(N);
    let mut i = 0;
    while i < M {
        m.push_back(orig(0x20 + i as u8));
        i += 1;
    }
    let keep = if M < N { M } else { N };
    if on!(P, C12 | C03) {
        let mut i = 0;
        while i < M {
            let expect = if i < M - keep { 1 } else { 0 };
            chk!(drops(0x20 + i as u8) == expect, "From<[T; M]> destroys exactly the discarded elements, once");
            i += 1;
        }
    }
    let held = Ids::new();
    finish::<N, P>(buf, &m, &held, Created { contents: 0, items: 0, sources: M, made: 0 });
}

/// `from_iter`: keeps the last N elements in order, destroys the rest exactly once
pub fn from_iter<const N: usize, const P: u32, S: Src>(s: &mut S) {
    ledger_reset();
    let k = s.usize();
    s.assume(k <= 2 * N + 1);
    cov!(k > N, "from_iter longer than the capacity");
    cov!(k < N, "from_iter shorter than the capacity");
    let buf: CircularBuffer<N, Tok> = GenIter::with_hint(0x50, k, s).collect();
    let mut m = Model::new(N);
    let mut i = 0;
    while i < k {
        m.push_back(orig(0x50 + i as u8));
        i += 1;
    }
    let held = Ids::new();
    finish::<N, P>(buf, &m, &held, Created { contents: 0, items: 0, sources: 0, made: k });
}

/// `clone()`: element-wise clones in order; source untouched; the two share no element
pub fn clone_buf<const N: usize, const P: u32, S: Src>(s: &mut S) {
    let St { buf, m, len, rot } = build::<N, S>(s);
    cov!(rot + len > N, "clone of wrapped contents");
    let c = buf.clone();
    let mut mc = Model::new(N);
    let mut i = 0;
    while i < len {
        mc.push_back(clone_of(i as u8));
        i += 1;
    }
    observe_eq(&c, &mc);
    observe_eq(&buf, &m);
    chk!(crate::tok::drop_events() == 0, "clone() destroys nothing");
    let first = s.bool();
    if first {
        drop(c);
        let mut i = 0;
        while i < len {
            chk!(drops(i as u8) == 0 && drops(i as u8 | 0x80) == 1, "dropping the clone destroys the clones only");
            i += 1;
        }
        observe_eq(&buf, &m);
        drop(buf);
    } else {
        drop(buf);
        let mut i = 0;
        while i < len {
            chk!(drops(i as u8) == 1 && drops(i as u8 | 0x80) == 0, "dropping the source destroys the originals only");
            i += 1;
        }
        observe_eq(&c, &mc);
        drop(c);
    }
    let mut i = 0;
    while i < len {
        chk!(drops(i as u8) == 1 && drops(i as u8 | 0x80) == 1, "every original and every clone is destroyed exactly once");
        i += 1;
    }
    conserve_flags();
}

/// `clone_from`: symbolic destination layout and contents
pub fn clone_from<const N: usize, const P: u32, S: Src>(s: &mut S) {
    let St { buf: src, m: ms, len: ls, rot: rs } = build::<N, S>(s);
    let St { buf: mut dst, len: ld, rot: rd, .. } = build_with_base::<N, S>(s, 0x10);
    cov!(ld > ls && rd + ld > N, "clone_from into a longer, wrapped destination");
    cov!(ld < ls && rs + ls > N, "clone_from of a longer, wrapped source");
    dst.clone_from(&src);
    let mut md = Model::new(N);
    let mut i = 0;
    while i < ls {
        md.push_back(clone_of(i as u8));
        i += 1;
    }
    if on!(P, C12 | C01) {
        observe_eq(&dst, &md);
        observe_eq(&src, &ms);
    }
    if on!(P, C12 | C03) {
        let mut i = 0;
        while i < ld {
            chk!(drops(0x10 + i as u8) == 1, "clone_from destroys the destination's old elements exactly once");
            i += 1;
        }
        let mut i = 0;
        while i < ls {
            chk!(drops(i as u8) == 0, "clone_from leaves the source's elements alone");
            i += 1;
        }
    }
    drop(dst);
    if on!(P, C12 | C03) {
        let mut i = 0;
        while i < ls {
            chk!(drops(i as u8) == 0 && drops(i as u8 | 0x80) == 1, "dropping the copy destroys the clones only");
            i += 1;
        }
        observe_eq(&src, &ms);
    }
    drop(src);
    if on!(P, C12 | C03) {
        let mut i = 0;
        while i < ls {
            chk!(drops(i as u8) == 1, "every original is destroyed exactly once");
            i += 1;
        }
        conserve_flags();
    }
}

/// `into_iter().collect()` modelled as popping everything from the front: original elements in
/// order
pub fn into_iter_all<const N: usize, const P: u32, S: Src>(s: &mut S) {
    let St { buf, len, rot, .. } = build::<N, S>(s);
    cov!(rot + len > N, "into_iter of wrapped contents");
    let mut it = buf.into_iter();
    let mut k = 0;
    while k <= N {
        match it.next() {
            Some(t) => {
                chk!(k < len && t.0 == k as u8, "into_iter() returns the original elements in order");
                core::mem::forget(t);
            }
            None => chk!(k >= len, "into_iter() returns every element"),
        }
        k += 1;
    }
    chk!(crate::tok::drop_events() == 0, "collecting the owning iterator destroys nothing");
    drop(it);
    chk!(crate::tok::drop_events() == 0, "dropping the exhausted owning iterator destroys nothing");
}

// ------------------------------------------------------------------ C17 sensitivity witnesses

/// growing a Vec must reach the (stubbed) allocator: shows the stub is live in this build
pub fn alloc_witness_vec<const N: usize, const P: u32, S: Src>(s: &mut S) {
    let mut v: Vec<u8> = Vec::new();
    v.push(s.u8());
    chk!(v.len() == 1, "unreachable: the allocation stub panics first");
}

#[cfg(feature = "alloc")]
pub fn alloc_witness_to_vec<const N: usize, const P: u32, S: Src>(s: &mut S) {
    let St { buf, len, .. } = build::<N, S>(s);
    s.assume(len > 0);
    let v = buf.to_vec();
    chk!(v.len() == len, "unreachable: the allocation stub panics first");
}

#[cfg(feature = "alloc")]
pub fn alloc_witness_boxed<const N: usize, const P: u32, S: Src>(_s: &mut S) {
    let b = CircularBuffer::<N, Tok>::boxed();
    chk!(b.len() == 0, "unreachable: the allocation stub panics first");
}
