//! C04: unoccupied storage is never observed; buffers with equal logical contents are
//! indistinguishable.
//!
//! Two buffers get the *same* logical contents (ids 0..len): a reference (front position 0, a fixed
//! byte pattern in the unoccupied slots) and one with a symbolic front position and symbolic bytes
//! in its unoccupied slots.  Agreement of every symbolic layout with the one reference gives
//! pairwise agreement of all layouts.  The same operation with
//! the same arguments is applied to both, and everything observable — return value, length,
//! every element by position, iteration order, what the destructors ran on, during the
//! operation and at the final drop — must be pairwise equal.  Nothing here refers to the
//! reference model: an operation that is wrong in the same way for every layout does not fail
//! this check (that is C01's business); one whose result depends on garbage bytes or on the
//! history behind the layout does.

use crate::model::CAP;
use crate::src::Src;
use crate::state::{build, St};
use crate::tok::{bad_drop, bad_read, drops, Tok};
use crate::*;
use circular_buffer::CircularBuffer;

fn same<const K: usize>(a: &[u8; K], b: &[u8; K], n: usize) -> bool {
    let mut ok = true;
    let mut i = 0;
    while i < n && i < K {
        if a[i] != b[i] {
            ok = false;
        }
        i += 1;
    }
    ok
}

#[derive(Clone, Copy)]
pub struct Observed {
    pub ret: u16,
    pub ret2: u16,
    pub len: usize,
    pub ids: [u8; CAP],
    pub iter_ids: [u8; CAP],
    pub iter_n: usize,
    pub slices_total: usize,
    pub drops_after_op: [u8; CAP],
    pub drops_extra: [u8; 8],
    pub drops_final: [u8; CAP],
    pub flags: u8,
}

const NONE: u16 = 0x100;
fn enc(t: Option<u8>) -> u16 {
    match t {
        Some(x) => x as u16,
        None => NONE,
    }
}

pub const OPS: usize = 20;

/// apply operation number `OP` (selected at compile time: one small query per operation) with arguments `(a, b)`;
/// returns the encoded return value(s)
fn apply<const N: usize, const OP: usize>(buf: &mut CircularBuffer<N, Tok>, a: usize, b: usize, len: usize) -> (u16, u16) {
    let mut r2 = NONE;
    let _ = len;
    let r = match OP {
        0 => enc(buf.push_back(Tok::new(0x40)).map(|t| t.hold())),
        1 => enc(buf.push_front(Tok::new(0x40)).map(|t| t.hold())),
        2 => enc(buf.pop_back().map(|t| t.hold())),
        3 => enc(buf.pop_front().map(|t| t.hold())),
        4 => enc(buf.remove(a).map(|t| t.hold())),
        5 => enc(buf.swap_remove_back(a).map(|t| t.hold())),
        6 => enc(buf.swap_remove_front(a).map(|t| t.hold())),
        7 => {
            buf.truncate_back(a);
            NONE
        }
        8 => {
            buf.truncate_front(a);
            NONE
        }
        9 => {
            // a, b were assumed to be a valid range by the caller
            let mut d = buf.drain(a..b);
            let x = enc(d.next().map(|t| t.hold()));
            r2 = enc(d.next_back().map(|t| t.hold()));
            drop(d);
            x
        }
        10 => {
            // in range by assumption
            buf.swap(a, b);
            NONE
        }
        11 => {
            r2 = enc(buf.nth_back(a).map(|t| t.0));
            enc(buf.get(a).map(|t| t.0))
        }
        12 => match buf.try_push_back(Tok::new(0x40)) {
            Ok(()) => NONE,
            Err(t) => t.hold() as u16,
        },
        13 => {
            let src = [Tok::new(0x20), Tok::new(0x21), Tok::new(0x22), Tok::new(0x23), Tok::new(0x24), Tok::new(0x25), Tok::new(0x26)];
            let k = if a < 7 { a } else { 7 };
            buf.extend_from_slice(&src[..k]);
            core::mem::forget(src);
            NONE
        }
        14 => {
            let c = buf.clone();
            let mut x = 0u16;
            let mut i = 0;
            while i < N {
                if let Some(t) = c.get(i) {
                    x = x.wrapping_mul(7).wrapping_add(t.0 as u16);
                }
                i += 1;
            }
            r2 = c.len() as u16;
            drop(c);
            x
        }
        15 => {
            buf.fill_spare(Tok::new(0x40));
            NONE
        }
        16 => {
            let mut k = 0u8;
            buf.fill_with(|| {
                k += 1;
                Tok::new(0x50 + k)
            });
            k as u16
        }
        17 => {
            let mut o = CircularBuffer::<N, Tok>::new();
            let mut i = 0;
            while i < a && i < N {
                core::mem::forget(o.push_back(Tok::new(0x30 + i as u8)));
                i += 1;
            }
            buf.clone_from(&o);
            core::mem::forget(o);
            NONE
        }
        18 => {
            let mut x = 0u16;
            {
                let sl = buf.make_contiguous();
                let mut i = 0;
                while i < sl.len() {
                    x = x.wrapping_mul(7).wrapping_add(sl[i].0 as u16);
                    i += 1;
                }
                r2 = sl.len() as u16;
            }
            x
        }
        _ => {
            // iterate a sub-range from the back
            let mut x = 0u16;
            let mut it = buf.range(a..b);
            while let Some(t) = it.next_back() {
                x = x.wrapping_mul(7).wrapping_add(t.0 as u16);
            }
            x
        }
    };
    (r, r2)
}

/// reference buffer: front position 0, fixed garbage pattern, contents 0..len.  Every symbolic layout is compared
/// with this one layout; equality with a common reference gives pairwise equality.
fn build_reference<const N: usize>(len: usize) -> CircularBuffer<N, Tok> {
    let mut buf = CircularBuffer::<N, Tok>::new();
    let mut i = 0;
    while i < N {
        core::mem::forget(buf.push_back(Tok::garbage(0x5A)));
        i += 1;
    }
    let mut i = 0;
    while i < N {
        core::mem::forget(buf.pop_front());
        i += 1;
    }
    crate::tok::ledger_reset();
    let mut j = 0;
    while j < len {
        core::mem::forget(buf.push_back(Tok::new(j as u8)));
        j += 1;
    }
    buf
}

fn observe_one<const N: usize, const OP: usize, S: Src>(s: &mut S, a: usize, b: usize, want_len: usize, reference: bool) -> Observed {
    let (mut buf, len) = if reference {
        (build_reference::<N>(want_len), want_len)
    } else {
        let St { buf, len, .. } = build::<N, S>(s);
        s.assume(len == want_len);
        (buf, len)
    };
    let (ret, ret2) = apply::<N, OP>(&mut buf, a, b, len);
    let mut o = Observed {
        ret,
        ret2,
        len: buf.len(),
        ids: [0; CAP],
        iter_ids: [0; CAP],
        iter_n: 0,
        slices_total: 0,
        drops_after_op: [0; CAP],
        drops_extra: [0; 8],
        drops_final: [0; CAP],
        flags: 0,
    };
    let mut i = 0;
    while i <= N {
        if let Some(t) = buf.get(i) {
            o.ids[i] = t.0;
        } else {
            o.ids[i] = 0xFF;
        }
        i += 1;
    }
    // every visible element is live: not destroyed, not an element the operation handed to the caller, not twice
    let ret_is_token = matches!(OP, 0..=6 | 9 | 12);
    let mut i = 0;
    while i < N {
        if let Some(t) = buf.get(i) {
            if drops(t.0) != 0 {
                o.flags |= 4;
            }
            if ret_is_token && (t.0 as u16 == ret || t.0 as u16 == ret2) {
                o.flags |= 8;
            }
            let mut j = 0;
            while j < i {
                if let Some(u) = buf.get(j) {
                    if u.0 == t.0 {
                        o.flags |= 16;
                    }
                }
                j += 1;
            }
        }
        i += 1;
    }
    let mut it = buf.iter();
    while let Some(t) = it.next() {
        if o.iter_n < CAP {
            o.iter_ids[o.iter_n] = t.0;
        }
        o.iter_n += 1;
    }
    let (x, y) = buf.as_slices();
    o.slices_total = x.len() + y.len();
    let mut i = 0;
    while i < len {
        o.drops_after_op[i] = drops(i as u8);
        i += 1;
    }
    o.drops_extra[0] = drops(0x40);
    o.drops_extra[1] = drops(0xc0);
    o.drops_extra[2] = drops(0x20);
    o.drops_extra[3] = drops(0xa0);
    o.drops_extra[4] = drops(0x51);
    drop(buf);
    let mut i = 0;
    while i < len {
        o.drops_final[i] = drops(i as u8);
        i += 1;
    }
    o.drops_extra[5] = drops(0x40);
    o.drops_extra[6] = drops(0xc0);
    o.drops_extra[7] = drops(0xa0);
    o.flags |= (bad_drop() as u8) | ((bad_read() as u8) << 1);
    o
}

/// operation OP on two buffers with equal contents and independent layout/garbage
pub fn two_buffers<const N: usize, const OP: usize, const P: u32, S: Src>(s: &mut S) {
    let len = s.usize();
    s.assume(len <= N);
    let a = s.usize();
    let b = s.usize();
    if OP == 9 || OP == 19 {
        s.assume(a <= b && b <= len);
    }
    if OP == 10 {
        s.assume(a < len && b < len);
    }
    let oa = observe_one::<N, OP, S>(s, a, b, len, true);
    let ob = observe_one::<N, OP, S>(s, a, b, len, false);
    chk!(oa.flags & 3 == 0 && ob.flags & 3 == 0, "no destructor or clone ran on a slot that holds no live element");
    chk!(oa.flags & 28 == 0 && ob.flags & 28 == 0, "every element visible afterwards is live: not destroyed, not handed to the caller by the operation, not duplicated");
    chk!(oa.ret == ob.ret && oa.ret2 == ob.ret2, "the result does not depend on the layout or on unoccupied bytes");
    chk!(oa.len == ob.len, "the length afterwards does not depend on the layout or on unoccupied bytes");
    chk!(same(&oa.ids, &ob.ids, N + 1), "the contents afterwards do not depend on the layout or on unoccupied bytes");
    chk!(oa.iter_n == ob.iter_n && same(&oa.iter_ids, &ob.iter_ids, N), "iteration afterwards does not depend on the layout or on unoccupied bytes");
    chk!(oa.slices_total == ob.slices_total, "as_slices() total length does not depend on the layout");
    chk!(same(&oa.drops_after_op, &ob.drops_after_op, N)
            && oa.drops_extra[0] == ob.drops_extra[0]
            && oa.drops_extra[1] == ob.drops_extra[1]
            && oa.drops_extra[2] == ob.drops_extra[2]
            && oa.drops_extra[3] == ob.drops_extra[3]
            && oa.drops_extra[4] == ob.drops_extra[4]
            && oa.drops_extra[5] == ob.drops_extra[5]
            && oa.drops_extra[6] == ob.drops_extra[6]
            && oa.drops_extra[7] == ob.drops_extra[7], "which elements an operation destroys does not depend on the layout or on unoccupied bytes");
    chk!(same(&oa.drops_final, &ob.drops_final, N), "what the final drop destroys does not depend on the layout or on unoccupied bytes");
}
