//! Observation of a buffer against the model, ownership conservation, closure probe.

use crate::model::{matches, Model};
use crate::tok::{bad_drop, bad_read, created, drops, Ids, Tok};
use circular_buffer::CircularBuffer;

/// All read-only observers of the contents agree with the model (C01 "observable contents").
pub fn observe_eq<const N: usize>(b: &CircularBuffer<N, Tok>, m: &Model) {
    chk!(b.len() == m.len, "contents: len() equals the model's length");
    chk!(b.is_empty() == (m.len == 0), "contents: is_empty() agrees with the model");
    chk!(b.is_full() == (m.len == N), "contents: is_full() agrees with the model");
    chk!(b.capacity() == N, "contents: capacity() is N");
    // get(i) for every position 0..=N
    let mut i = 0;
    while i <= N {
        match b.get(i) {
            Some(t) => {
                chk!(i < m.len, "contents: get(i) is None for i >= len");
                chk!(matches(t, m.a[i]), "contents: get(i) is the model's i-th element");
            }
            None => chk!(i >= m.len, "contents: get(i) is Some for i < len"),
        }
        i += 1;
    }
    match b.front() {
        Some(t) => chk!(m.len > 0 && matches(t, m.a[0]), "contents: front() is the model's first element"),
        None => chk!(m.len == 0, "contents: front() is None only when empty"),
    }
    match b.back() {
        Some(t) => chk!(m.len > 0 && matches(t, m.a[m.len - 1]), "contents: back() is the model's last element"),
        None => chk!(m.len == 0, "contents: back() is None only when empty"),
    }
    // front-to-back iteration order
    let mut it = b.iter();
    let mut k = 0;
    loop {
        match it.next() {
            Some(t) => {
                chk!(k < m.len, "contents: iter() yields no more than len elements");
                chk!(matches(t, m.a[k]), "contents: iter() yields the model's elements in order");
                k += 1;
            }
            None => break,
        }
    }
    chk!(k == m.len, "contents: iter() yields exactly len elements");
    // as_slices: first followed by second is the sequence (where it splits is not specified)
    let (x, y) = b.as_slices();
    chk!(x.len() + y.len() == m.len, "contents: as_slices() lengths sum to len");
    let mut k = 0;
    while k < x.len() {
        chk!(matches(&x[k], m.a[k]), "contents: as_slices().0 is a prefix of the model");
        k += 1;
    }
    let mut j = 0;
    while j < y.len() {
        chk!(matches(&y[j], m.a[x.len() + j]), "contents: as_slices().1 continues the model");
        j += 1;
    }
}

/// Closure probe (DESIGN §3): the post-state is again a state of the invariant, so that one
/// step from every invariant state covers every finite history.  `front()`/`push_back` index
/// `items[start]` directly and fail Kani's bounds check if `start >= N`.
pub fn closure_probe<const N: usize>(b: &mut CircularBuffer<N, Tok>) {
    chk!(b.len() <= N, "closure: len <= N after the operation");
    if b.len() > 0 {
        let _ = b.front();
        let _ = b.back();
    } else if N > 0 {
        let r = b.push_back(Tok::new(0x7f));
        chk!(r.is_none(), "closure: push_back on an empty buffer displaces nothing");
        chk!(b.len() == 1, "closure: push_back on an empty buffer gives length 1");
        match b.front() {
            Some(t) => chk!(t.0 == 0x7f, "closure: pushed element is at the front"),
            None => chk!(false, "closure: front() is Some after push_back"),
        }
        match b.pop_back() {
            Some(t) => {
                chk!(t.0 == 0x7f, "closure: pop_back returns the pushed element");
                core::mem::forget(t);
            }
            None => chk!(false, "closure: pop_back is Some after push_back"),
        }
    }
}

/// how many times does `id` occur in the buffer?
pub fn occurrences<const N: usize>(b: &CircularBuffer<N, Tok>, id: u8) -> usize {
    let mut c = 0;
    let mut i = 0;
    while i < N {
        if let Some(t) = b.get(i) {
            if t.0 == id {
                c += 1;
            }
        }
        i += 1;
    }
    c
}

/// Ownership conservation (C03): every object with an id in `base .. base+count` is in exactly
/// one place: in the buffer, held by the harness, or destroyed (exactly once).  Several objects
/// may share an id (clones of one source): then the number of places equals the number made.
pub fn conserve_range<const N: usize>(b: Option<&CircularBuffer<N, Tok>>, held: &Ids, base: u8, count: usize) {
    if !crate::tok::TRACK {
        return;
    }
    let mut k = 0;
    while k < count {
        let id = base.wrapping_add(k as u8);
        let inb = match b {
            Some(b) => occurrences(b, id),
            None => 0,
        };
        let made = created(id) as usize;
        let places = inb + held.count(id) + drops(id) as usize;
        chk!(drops(id) as usize <= made, "ownership: no element is destroyed twice");
        chk!(places >= made, "ownership: no element is lost (neither in the buffer, nor with the caller, nor destroyed)");
        chk!(places <= made, "ownership: no element is in two places (destroyed while reachable, or duplicated)");
        k += 1;
    }
}

pub fn conserve_flags() {
    chk!(!bad_drop(), "ownership: no destructor ran on a slot that holds no live element");
    chk!(!bad_read(), "ownership: no clone was taken from a slot that holds no live element");
}
