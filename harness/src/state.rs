//! Symbolic pre-states, built through the public API only (DESIGN §2.1).
//!
//! `build` reaches every state satisfying the representation invariant: every front position
//! `rot < N`, every length `len <= N`, and every filling of the unoccupied slots (each slot is
//! first overwritten with a solver-chosen byte pattern that is then forgotten).

use crate::model::{BModel, Model};
use crate::src::Src;
use crate::tok::{ledger_reset, Tok};
use circular_buffer::CircularBuffer;

pub struct St<const N: usize> {
    pub buf: CircularBuffer<N, Tok>,
    pub m: Model,
    pub rot: usize,
    pub len: usize,
}

/// rotate the front position of an empty buffer to `rot`, then fill all slots with garbage
pub fn prepare<const N: usize, S: Src>(b: &mut CircularBuffer<N, Tok>, s: &mut S) -> usize {
    let rot = s.usize();
    s.assume(if N == 0 { rot == 0 } else { rot < N });
    let mut i = 0;
    while i < rot {
        b.push_back(Tok::garbage(0xEE));
        core::mem::forget(b.pop_front());
        i += 1;
    }
    // garbage prefill: N pushes fill every slot, N pops bring the front position back to `rot`
    let mut i = 0;
    while i < N {
        let g = Tok::garbage(s.u8());
        core::mem::forget(b.push_back(g));
        i += 1;
    }
    let mut i = 0;
    while i < N {
        core::mem::forget(b.pop_front());
        i += 1;
    }
    rot
}

/// symbolic state with contents `Tok::new(0) .. Tok::new(len-1)`
pub fn build<const N: usize, S: Src>(s: &mut S) -> St<N> {
    let mut buf = CircularBuffer::<N, Tok>::new();
    let rot = prepare(&mut buf, s);
    let len = s.usize();
    s.assume(len <= N);
    ledger_reset();
    let mut j = 0;
    while j < len {
        core::mem::forget(buf.push_back(Tok::new(j as u8)));
        j += 1;
    }
    St { buf, m: Model::iota(N, len), rot, len }
}

/// same with contents `Tok::new(base) ..` (second buffer of a two-buffer scenario); does not
/// reset the ledger
pub fn build_with_base<const N: usize, S: Src>(s: &mut S, base: u8) -> St<N> {
    let mut buf = CircularBuffer::<N, Tok>::new();
    let rot = prepare(&mut buf, s);
    let len = s.usize();
    s.assume(len <= N);
    let mut m = Model::new(N);
    let mut j = 0;
    while j < len {
        let id = base + j as u8;
        core::mem::forget(buf.push_back(Tok::new(id)));
        m.a[j] = id;
        j += 1;
    }
    m.len = len;
    St { buf, m, rot, len }
}

pub struct BSt<const N: usize> {
    pub buf: CircularBuffer<N, u8>,
    pub m: BModel,
    pub rot: usize,
}

/// byte buffer: symbolic front position, length, contents and garbage
pub fn build_u8<const N: usize, S: Src>(s: &mut S) -> BSt<N> {
    let mut buf = CircularBuffer::<N, u8>::new();
    let rot = s.usize();
    s.assume(if N == 0 { rot == 0 } else { rot < N });
    let mut i = 0;
    while i < rot {
        buf.push_back(0xEE);
        buf.pop_front();
        i += 1;
    }
    let mut i = 0;
    while i < N {
        buf.push_back(s.u8());
        i += 1;
    }
    let mut i = 0;
    while i < N {
        buf.pop_front();
        i += 1;
    }
    let len = s.usize();
    s.assume(len <= N);
    let mut m = BModel::new(N);
    let mut j = 0;
    while j < len {
        let v = s.u8();
        buf.push_back(v);
        m.a[j] = v;
        j += 1;
    }
    m.len = len;
    BSt { buf, m, rot }
}
