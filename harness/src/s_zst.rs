//! C19: zero-sized elements and extreme capacities.  The array is zero bytes, so capacities up
//! to usize::MAX are ordinary instantiations; front positions right below the capacity are
//! reached with push_front from an empty buffer.

use crate::s_iter::SymRange;
use crate::src::Src;
use crate::tok::{zdrops, zfmt_reset, zfmts, zreset, Z};
use crate::*;
use circular_buffer::CircularBuffer;

#[derive(PartialEq, Eq, Hash, Clone, Copy)]
pub struct U;

struct CountHasher(u64);
impl core::hash::Hasher for CountHasher {
    fn finish(&self) -> u64 {
        self.0
    }
    fn write(&mut self, b: &[u8]) {
        self.0 += b.len() as u64;
    }
    fn write_usize(&mut self, i: usize) {
        self.0 = self.0.wrapping_mul(31).wrapping_add(i as u64);
    }
}

/// `k` push_front (front position N-1, N-2, ..), `j` push_back, then one symbolic operation
pub fn zst_op<const N: usize, const G: usize, const P: u32, S: Src>(s: &mut S) {
    let mut b = CircularBuffer::<N, Z>::new();
    zreset();
    let k = s.usize();
    let j = s.usize();
    s.assume(k <= 3 && j <= 3);
    let mut i = 0;
    while i < k {
        let r = b.push_front(Z);
        chk!(r.is_none(), "zst: push_front with room displaces nothing");
        core::mem::forget(r);
        i += 1;
    }
    let mut i = 0;
    while i < j {
        let r = b.push_back(Z);
        chk!(r.is_none(), "zst: push_back with room displaces nothing");
        core::mem::forget(r);
        i += 1;
    }
    let len = k + j;
    chk!(b.len() == len, "zst: length after the pushes");
    chk!(!b.is_full() && (b.is_empty() == (len == 0)), "zst: emptiness/fullness after the pushes");
    cov!(k == 3 && j == 3, "zst: contents wrap around position N");
    cov!(k == 0 && j > 0, "zst: front at position 0");
    // G selects a group of five operations at compile time (keeps each query small)
    let op = s.u8();
    let group = if op < 15 { (op as usize) / 5 } else if op < 17 { 3 } else { (op as usize) - 13 };
    s.assume(op < 21 && group == G);
    let a = s.usize();
    let c = s.usize();
    cov!(a == usize::MAX, "zst: argument usize::MAX");
    let mut expect_len = len;
    let mut expect_drops = 0u64;
    if G == 0 {
        match op {
            0 => {
                let r = b.pop_front();
                chk!(r.is_some() == (len > 0), "zst: pop_front");
                if r.is_some() {
                    expect_len -= 1;
                }
                core::mem::forget(r);
            }
            1 => {
                let r = b.pop_back();
                chk!(r.is_some() == (len > 0), "zst: pop_back");
                if r.is_some() {
                    expect_len -= 1;
                }
                core::mem::forget(r);
            }
            2 => {
                let r = b.try_push_back(Z);
                chk!(r.is_ok(), "zst: try_push_back with room");
                core::mem::forget(r);
                expect_len += 1;
            }
            3 => {
                let r = b.try_push_front(Z);
                chk!(r.is_ok(), "zst: try_push_front with room");
                core::mem::forget(r);
                expect_len += 1;
            }
            _ => {
                chk!(b.get(a).is_some() == (a < len), "zst: get");
                chk!(b.nth_front(a).is_some() == (a < len), "zst: nth_front");
                chk!(b.nth_back(a).is_some() == (a < len), "zst: nth_back");
                chk!(b.front().is_some() == (len > 0), "zst: front");
                chk!(b.back().is_some() == (len > 0), "zst: back");
                chk!(b.get_mut(a).is_some() == (a < len), "zst: get_mut");
            }
        }
    }
    if G == 1 {
        match op {
            5 => {
                s.assume(a < len && c < len);
                b.swap(a, c);
            }
            6 => {
                let r = b.swap_remove_back(a);
                chk!(r.is_some() == (a < len), "zst: swap_remove_back");
                if r.is_some() {
                    expect_len -= 1;
                }
                core::mem::forget(r);
            }
            7 => {
                let r = b.swap_remove_front(a);
                chk!(r.is_some() == (a < len), "zst: swap_remove_front");
                if r.is_some() {
                    expect_len -= 1;
                }
                core::mem::forget(r);
            }
            8 => {
                let r = b.remove(a);
                chk!(r.is_some() == (a < len), "zst: remove");
                if r.is_some() {
                    expect_len -= 1;
                }
                core::mem::forget(r);
            }
            _ => {
                b.truncate_back(a);
                if a < len {
                    expect_drops = (len - a) as u64;
                    expect_len = a;
                }
            }
        }
    }
    if G == 2 {
        match op {
            10 => {
                b.truncate_front(a);
                if a < len {
                    expect_drops = (len - a) as u64;
                    expect_len = a;
                }
            }
            11 => {
                b.clear();
                expect_drops = len as u64;
                expect_len = 0;
            }
            12 => {
                let r = SymRange::any(s);
                s.assume(!r.must_panic(len));
                let (x, y) = r.math(len);
                let (x, y) = (x as usize, y as usize);
                let mut d = b.drain(r);
                chk!(d.len() == y - x, "zst: drain length");
                let mut taken = 0;
                let steps = s.usize();
                s.assume(steps <= 2);
                let mut i = 0;
                while i < steps {
                    let t = if s.bool() { d.next() } else { d.next_back() };
                    if t.is_some() {
                        taken += 1;
                    }
                    core::mem::forget(t);
                    i += 1;
                }
                drop(d);
                expect_drops = (y - x - taken) as u64;
                expect_len = len - (y - x);
            }
            13 => {
                let (x, y) = b.as_slices();
                chk!(x.len() + y.len() == len, "zst: as_slices lengths");
                let (x, y) = b.as_mut_slices();
                chk!(x.len() + y.len() == len, "zst: as_mut_slices lengths");
                chk!(b.iter().len() == len, "zst: iter length");
                let mut it = b.iter();
                let mut n = 0;
                while it.next().is_some() {
                    n += 1;
                }
                chk!(n == len, "zst: iter yields len elements");
            }
            _ => {
                let r = SymRange::any(s);
                s.assume(!r.must_panic(len));
                let (x, y) = r.math(len);
                let mut it = b.range(r);
                chk!(it.len() == (y - x) as usize, "zst: range length");
                let mut n = 0;
                while it.next_back().is_some() {
                    n += 1;
                }
                chk!(n == (y - x) as usize, "zst: range yields the selected elements");
            }
        }
    }
    if G == 3 {
        match op {
            15 => {
                let src = [Z, Z, Z];
                s.assume(a <= 3);
                b.extend_from_slice(&src[..a]);
                core::mem::forget(src);
                expect_len += a;
            }
            _ => {
                s.assume(a <= 3);
                let mut n = 0;
                b.extend(core::iter::from_fn(|| {
                    if n < a {
                        n += 1;
                        Some(Z)
                    } else {
                        None
                    }
                }));
                expect_len += a;
            }
        }
    }
    if G == 4 {
        match op {
            _ => {
                let sl = b.make_contiguous();
                chk!(sl.len() == len, "zst: make_contiguous returns all elements");
                chk!(b.as_slices().1.is_empty(), "zst: single slice after make_contiguous");
            }
        }
    }
    if G == 5 {
        match op {
            _ => {
                let mut o = CircularBuffer::<N, Z>::new();
                s.assume(a <= 2);
                let mut i = 0;
                while i < a {
                    core::mem::forget(o.push_back(Z));
                    i += 1;
                }
                let before = zdrops();
                b.clone_from(&o);
                if N < (1usize << 63) {
                    chk!(zdrops() - before == len as u64, "zst: clone_from destroys the old elements");
                }
                expect_drops = len as u64;
                expect_len = a;
                core::mem::forget(o);
            }
        }
    }
    if G == 6 {
        match op {
            _ => {
                let f = CircularBuffer::<N, Z>::from([Z, Z]);
                chk!(f.len() == 2, "zst: From<[Z; 2]>");
                core::mem::forget(f);
            }
        }
    }
    if G == 7 {
        // Debug of the buffer and of a partly consumed Drain (Drain::as_slices is reachable through that impl only):
        // the formatter must visit exactly the live / not yet yielded elements, without overflow at front positions
        // right below the capacity
        use core::fmt::Write;
        let r = SymRange::any(s);
        s.assume(!r.must_panic(len));
        let (x, y) = r.math(len);
        let (x, y) = (x as usize, y as usize);
        let mut sink = crate::s_cmp::Sink::new();
        zfmt_reset();
        let ok = write!(sink, "{:?}", b).is_ok();
        chk!(ok && zfmts() == len as u64, "zst: Debug of the buffer formats every element once");
        let mut d = b.drain(r);
        let mut taken = 0;
        if s.bool() {
            let t = if s.bool() { d.next() } else { d.next_back() };
            if t.is_some() {
                taken += 1;
            }
            core::mem::forget(t);
        }
        zfmt_reset();
        let ok = write!(sink, "{:?}", d).is_ok();
        chk!(ok && zfmts() == (y - x - taken) as u64, "zst: Debug of a Drain formats exactly the elements not yet yielded");
        cov!(k > 0 && x < k && y > k && taken == 1, "zst: Debug of a Drain whose range straddles position N");
        drop(d);
        expect_drops = (y - x - taken) as u64;
        expect_len = len - (y - x);
    }
    chk!(b.len() == expect_len, "zst: length follows the sequence semantics");
    chk!(b.is_empty() == (expect_len == 0), "zst: is_empty follows the sequence semantics");
    chk!(!b.is_full(), "zst: a huge buffer with a few elements is not full");
    // Destructor counts are asserted at capacities below 2^63 only: with them in the formula CBMC 6.11 hits an
    // internal invariant (boolbv_width of `[Z; N]`, N >= 2^63) once both push_front and push_back are reachable.
    // Lengths, results and the absence of overflow / division / bounds failures are asserted at every capacity.
    let counting = N < (1usize << 63);
    if counting {
        chk!(zdrops() == expect_drops, "zst: number of destructor runs follows the sequence semantics");
    }
    let before = zdrops();
    // the buffer's destructor, run in place: moving a `[Z; 2^63]` by value into `drop()` trips a CBMC
    // invariant (boolbv_width) at capacities >= 2^63; `drop_in_place` is the same destructor without the move
    unsafe {
        core::ptr::drop_in_place(&mut b as *mut CircularBuffer<N, Z>);
    }
    core::mem::forget(b);
    if counting {
        chk!(zdrops() - before == expect_len as u64, "zst: dropping the buffer destroys the remaining elements once");
    }
}

/// `==` and `Hash` for zero-sized elements at extreme capacities
pub fn zst_cmp<const N: usize, const P: u32, S: Src>(s: &mut S) {
    let mut a = CircularBuffer::<N, U>::new();
    let mut b = CircularBuffer::<N, U>::new();
    let (ka, ja, kb, jb) = (s.usize(), s.usize(), s.usize(), s.usize());
    s.assume(ka <= 2 && ja <= 2 && kb <= 2 && jb <= 2);
    let mut i = 0;
    while i < ka {
        a.push_front(U);
        i += 1;
    }
    let mut i = 0;
    while i < ja {
        a.push_back(U);
        i += 1;
    }
    let mut i = 0;
    while i < kb {
        b.push_front(U);
        i += 1;
    }
    let mut i = 0;
    while i < jb {
        b.push_back(U);
        i += 1;
    }
    cov!(ka > 0 && kb == 0 && ka + ja == kb + jb, "zst: equal lengths, different front positions");
    chk!((a == b) == (ka + ja == kb + jb), "zst: buffers are equal exactly when their lengths are equal");
    let mut ha = CountHasher(0);
    let mut hb = CountHasher(0);
    core::hash::Hash::hash(&a, &mut ha);
    core::hash::Hash::hash(&b, &mut hb);
    if ka + ja == kb + jb {
        chk!(ha.0 == hb.0, "zst: equal buffers hash equally");
    }
}
