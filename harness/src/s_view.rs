//! C07: all views of the contents agree (same elements, same addresses); mutable views alias
//! exactly those elements.

use crate::model::{orig, CAP};
use crate::s_mut::{created, finish, Created};
use crate::src::Src;
use crate::state::{build, St};
use crate::tok::{Ids, Tok};
use crate::*;

fn addr(t: &Tok) -> usize {
    t as *const Tok as usize
}

/// shared accessors at a symbolic position `p` and at every position `0..=N`
pub fn views<const N: usize, const P: u32, S: Src>(s: &mut S) {
    let St { buf, m, len, rot } = build::<N, S>(s);
    let p = s.usize();
    cov!(p < len && rot + p >= N, "views: position in the wrapped segment");
    cov!(p == len, "views: position len");
    cov!(p == len + 1, "views: position len+1");
    cov!(p == usize::MAX, "views: position usize::MAX");

    let g = buf.get(p).map(addr);
    chk!(g.is_some() == (p < len), "get(p) is Some exactly for p < len");
    if let Some(t) = buf.get(p) {
        chk!(t.0 == m.a[p], "get(p) is the p-th element");
    }
    chk!(buf.nth_front(p).map(addr) == g, "nth_front(p) is get(p)");
    // nth_back counts from the back
    let nb = buf.nth_back(p).map(addr);
    chk!(nb.is_some() == (p < len), "nth_back(p) is Some exactly for p < len");
    if p < len {
        chk!(nb == buf.get(len - 1 - p).map(addr), "nth_back(p) is get(len-1-p)");
        chk!(addr(&buf[p]) == g.unwrap(), "buf[p] is get(p)");
        if p < usize::MAX {
            let mut r = buf.range(p..p + 1);
            chk!(r.len() == 1, "range(p..p+1) selects one element");
            chk!(r.next().map(addr) == g, "range(p..p+1) yields get(p)");
            chk!(r.next().is_none(), "range(p..p+1) yields nothing else");
        }
        let mut r = buf.range(p..=p);
        chk!(r.next_back().map(addr) == g, "range(p..=p) yields get(p) from the back");
    }
    chk!(buf.front().map(addr) == buf.get(0).map(addr), "front() is get(0)");
    chk!(buf.back().map(addr) == if len > 0 { buf.get(len - 1).map(addr) } else { None }, "back() is get(len-1)");
    chk!(buf.back().is_some() == (len > 0), "back() is Some exactly when non-empty");

    // every position: iter and as_slices present the same objects as get
    let (x, y) = buf.as_slices();
    chk!(x.len() + y.len() == len, "as_slices() lengths sum to len");
    let mut it = buf.iter();
    let mut k = 0;
    while k <= N {
        let gk = buf.get(k).map(addr);
        chk!(it.next().map(addr) == gk, "iter() yields the element get(k) at step k (None past the end)");
        if k < len {
            let sk = if k < x.len() { addr(&x[k]) } else { addr(&y[k - x.len()]) };
            chk!(Some(sk) == gk, "as_slices() (first then second) holds get(k) at position k");
            chk!(buf.get(k).unwrap().0 == m.a[k], "get(k) is the k-th element of the sequence");
        }
        k += 1;
    }
    // distinct positions are distinct objects
    let mut i = 0;
    while i < len {
        let mut j = i + 1;
        while j < len {
            chk!(buf.get(i).map(addr) != buf.get(j).map(addr), "different positions are different objects");
            j += 1;
        }
        i += 1;
    }
    core::mem::forget(buf);
}

/// `to_vec` presents the same sequence (clones, in order)
#[cfg(feature = "alloc")]
pub fn view_to_vec<const N: usize, const P: u32, S: Src>(s: &mut S) {
    let St { buf, m, len, rot } = build::<N, S>(s);
    cov!(rot + len > N, "to_vec of wrapped contents");
    let v = buf.to_vec();
    chk!(v.len() == len, "to_vec() has len elements");
    let mut k = 0;
    while k < v.len() && k < len {
        chk!(v[k].0 == m.a[k] | 0x80, "to_vec()[k] is a clone of the k-th element");
        k += 1;
    }
    if on!(P, C12) {
        // the source is untouched and shares nothing with the copy
        crate::obs::observe_eq(&buf, &m);
        chk!(crate::tok::drop_events() == 0, "to_vec() destroys nothing");
        drop(v);
        let mut k = 0;
        while k < len {
            chk!(crate::tok::drops(k as u8) == 0, "dropping the Vec does not touch the source's elements");
            chk!(crate::tok::drops(k as u8 | 0x80) == 1, "dropping the Vec destroys each clone once");
            k += 1;
        }
        crate::obs::observe_eq(&buf, &m);
        drop(buf);
        let mut k = 0;
        while k < len {
            chk!(crate::tok::drops(k as u8) == 1, "dropping the source destroys each original once");
            chk!(crate::tok::drops(k as u8 | 0x80) == 1, "dropping the source does not touch the clones");
            k += 1;
        }
        crate::obs::conserve_flags();
    } else {
        core::mem::forget(v);
        core::mem::forget(buf);
    }
}

/// one mutable accessor (symbolic choice) at a symbolic position: it addresses the element the
/// shared accessor shows, and a write through it changes exactly that position
pub fn view_mut<const N: usize, const P: u32, S: Src>(s: &mut S) {
    let St { mut buf, mut m, len, rot } = build::<N, S>(s);
    let p = s.usize();
    let which = s.u8();
    s.assume(which < 9);
    let want = buf.get(p).map(addr);
    let mut held = Ids::new();
    let mut wrote = 0;
    cov!(p < len && rot + p >= N, "view_mut: position in the wrapped segment");
    cov!(p >= len, "view_mut: position out of range");
    {
        let r: Option<&mut Tok> = match which {
            0 => buf.get_mut(p),
            1 => buf.nth_front_mut(p),
            2 => {
                // nth_back_mut counts from the back
                if p < len {
                    buf.nth_back_mut(len - 1 - p)
                } else {
                    let r = buf.nth_back_mut(p);
                    chk!(r.is_none(), "nth_back_mut(p) is None for p >= len");
                    None
                }
            }
            3 => {
                s.assume(p == 0);
                buf.front_mut()
            }
            4 => {
                s.assume((len > 0 && p == len - 1) || (len == 0 && p == 0));
                buf.back_mut()
            }
            5 => {
                s.assume(p < len); // out of range panics: C11
                Some(&mut buf[p])
            }
            6 => {
                // iter_mut, p steps in
                let mut it = buf.iter_mut();
                let mut k = 0;
                let mut cur = it.next();
                while k < p && k <= N {
                    cur = it.next();
                    k += 1;
                }
                cur
            }
            7 => {
                s.assume(p < len);
                let mut it = buf.range_mut(p..=p);
                chk!(it.len() == 1, "range_mut(p..=p) selects one element");
                it.next()
            }
            _ => {
                let (x, y) = buf.as_mut_slices();
                if p < x.len() {
                    Some(&mut x[p])
                } else if p - x.len() < y.len() {
                    Some(&mut y[p - x.len()])
                } else {
                    None
                }
            }
        };
        match r {
            Some(t) => {
                chk!(p < len, "mutable accessor is None for p >= len");
                chk!(Some(addr(t)) == want, "mutable accessor addresses the element the shared accessor shows");
                let old = core::mem::replace(t, Tok::new(0x40));
                chk!(old.0 == m.a[p], "mutable accessor held the p-th element");
                held.push(old.hold());
                m.set(p, orig(0x40));
                wrote = 1;
            }
            None => chk!(p >= len, "mutable accessor is Some for p < len"),
        }
    }
    finish::<N, P>(buf, &m, &held, Created { contents: len, items: wrote, sources: 0, made: 0 });
}

/// iter_mut / range_mut / as_mut_slices hand out pairwise distinct elements, the same objects
/// the shared accessors show, in order
pub fn view_mut_distinct<const N: usize, const P: u32, S: Src>(s: &mut S) {
    let St { mut buf, m, len, rot } = build::<N, S>(s);
    let a = s.usize();
    let b = s.usize();
    s.assume(a <= b && b <= len);
    cov!(a < b && rot + a < N && rot + b > N, "range_mut selection spans the wrap");
    let mut want = [0usize; CAP];
    let mut k = 0;
    while k < len {
        want[k] = buf.get(k).map(addr).unwrap_or(0);
        k += 1;
    }
    let which = s.u8();
    s.assume(which < 3);
    let mut got = [0usize; CAP];
    let mut n = 0;
    let lo = if which == 1 { a } else { 0 };
    match which {
        0 => {
            let mut it = buf.iter_mut();
            while let Some(t) = it.next() {
                if n < CAP {
                    got[n] = addr(t);
                }
                n += 1;
            }
            chk!(n == len, "iter_mut() yields len elements");
        }
        1 => {
            let mut it = buf.range_mut(a..b);
            while let Some(t) = it.next() {
                if n < CAP {
                    got[n] = addr(t);
                }
                n += 1;
            }
            chk!(n == b - a, "range_mut(a..b) yields b-a elements");
        }
        _ => {
            let (x, y) = buf.as_mut_slices();
            let mut i = 0;
            while i < x.len() {
                if n < CAP {
                    got[n] = addr(&x[i]);
                }
                n += 1;
                i += 1;
            }
            let mut i = 0;
            while i < y.len() {
                if n < CAP {
                    got[n] = addr(&y[i]);
                }
                n += 1;
                i += 1;
            }
            chk!(n == len, "as_mut_slices() hold len elements");
        }
    }
    let mut i = 0;
    while i < n && i < CAP {
        chk!(got[i] == want[lo + i], "mutable view yields, in order, the objects the shared accessors show");
        let mut j = i + 1;
        while j < n && j < CAP {
            chk!(got[i] != got[j], "mutable view yields pairwise distinct elements");
            j += 1;
        }
        i += 1;
    }
    let held = Ids::new();
    finish::<N, P>(buf, &m, &held, created(len));
}
