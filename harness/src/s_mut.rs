//! Mutator scenarios: one operation from an arbitrary invariant state with arbitrary arguments,
//! compared with the reference model (C01/C02), with ownership conservation (C03) and with
//! relocation counting (C20).

use crate::model::{clone_of, matches, orig, Model, E};
use crate::obs::*;
use crate::src::Src;
use crate::state::{build, St};
use crate::tok::{Ids, Tok};
use crate::*;
use circular_buffer::CircularBuffer;

/// groups that compare the contents with the model
pub const OBS: u32 = C01 | C02 | C09 | C12 | C14;

/// id ranges created by the harness, for the conservation check
#[derive(Clone, Copy)]
pub struct Created {
    pub contents: usize,
    pub items: usize,   // 0x40..
    pub sources: usize, // 0x20..
    pub made: usize,    // 0x50.. (closure / iterator results)
}

/// Common epilogue: contents vs model, conservation now and after the final drop, closure probe.
pub fn finish<const N: usize, const P: u32>(mut buf: CircularBuffer<N, Tok>, m: &Model, held: &Ids, c: Created) {
    if on!(P, OBS) {
        observe_eq(&buf, m);
    }
    if on!(P, C03) {
        conserve_all(Some(&buf), held, c);
    }
    if on!(P, C01) {
        closure_probe(&mut buf);
    }
    if on!(P, C03) {
        let k0 = crate::tok::drop_events() as usize;
        drop(buf);
        conserve_all::<N>(None, held, c);
        if on!(P, C18) {
            // element lifecycle events: the default build destroys the remaining elements front to back
            chk!(crate::tok::drop_events() as usize == k0 + m.len, "lifecycle: the final drop destroys exactly the remaining elements");
            let mut i = 0;
            while i < m.len && k0 + i < 32 {
                chk!(crate::tok::dropped_at(k0 + i) == m.a[i], "lifecycle: the final drop destroys the elements front to back");
                i += 1;
            }
        }
    } else {
        core::mem::forget(buf);
    }
}

/// (C18) the destructor calls `k0..k0+count` ran on the ids `first, first+1, ..` in that order
pub fn dropped_ascending(k0: usize, first: usize, count: usize) -> bool {
    let mut ok = crate::tok::drop_events() as usize == k0 + count;
    let mut i = 0;
    while i < count && k0 + i < 32 {
        if crate::tok::dropped_at(k0 + i) != (first + i) as u8 {
            ok = false;
        }
        i += 1;
    }
    ok
}

pub fn conserve_all<const N: usize>(b: Option<&CircularBuffer<N, Tok>>, held: &Ids, c: Created) {
    conserve_range(b, held, 0, c.contents);
    conserve_range(b, held, 0x40, c.items);
    conserve_range(b, held, 0x20, c.sources);
    conserve_range(b, held, 0x50, c.made);
    conserve_range(b, held, 0x80, c.contents);
    conserve_range(b, held, 0xc0, c.items);
    conserve_range(b, held, 0xa0, c.sources);
    conserve_range(b, held, 0xd0, c.made);
    conserve_flags();
}

pub const fn created(contents: usize) -> Created {
    Created { contents, items: 0, sources: 0, made: 0 }
}

// ------------------------------------------------------------------ relocation (C20)

/// addresses of the elements with ids `0..len` (id = original position)
pub fn addresses<const N: usize>(b: &CircularBuffer<N, Tok>, len: usize) -> [usize; crate::model::CAP] {
    let mut a = [0usize; crate::model::CAP];
    let mut i = 0;
    while i < len {
        if let Some(t) = b.get(i) {
            a[t.0 as usize & 15] = t as *const Tok as usize;
        }
        i += 1;
    }
    a
}

/// number of surviving original elements (ids `0..len`) whose address changed
pub fn moved<const N: usize>(b: &CircularBuffer<N, Tok>, before: &[usize; crate::model::CAP], len: usize) -> usize {
    let mut n = 0;
    let mut i = 0;
    while i < N {
        if let Some(t) = b.get(i) {
            if (t.0 as usize) < len {
                if before[t.0 as usize & 15] != t as *const Tok as usize {
                    n += 1;
                }
            }
        }
        i += 1;
    }
    n
}

// ------------------------------------------------------------------ push / try_push

fn ret_matches(r: &Option<Tok>, e: Option<E>) -> bool {
    match (r, e) {
        (Some(t), Some(e)) => matches(t, e),
        (None, None) => true,
        _ => false,
    }
}

pub fn push_back<const N: usize, const P: u32, S: Src>(s: &mut S) {
    let St { mut buf, mut m, len, rot } = build::<N, S>(s);
    let before = addresses(&buf, len);
    let was_full = buf.is_full();
    let front_id = if len > 0 { Some(orig(0)) } else { None };
    let r = buf.push_back(Tok::new(0x40));
    let e = m.push_back(orig(0x40));
    cov!(len == N && N > 0 && rot > 0, "push_back on a full buffer with rotated front");
    cov!(len < N, "push_back with room");
    if on!(P, C01 | C02) {
        chk!(ret_matches(&r, e), "push_back returns exactly the displaced element (model)");
    }
    if on!(P, C02) {
        // spelled out independently of the model
        if N == 0 {
            chk!(r.is_some() && r.as_ref().unwrap().0 == 0x40, "push_back at capacity 0 hands back the pushed element itself");
        } else if was_full {
            chk!(r.is_some() && Some(r.as_ref().unwrap().0 as E) == front_id, "push_back on a full buffer hands back the former front element");
            chk!(occurrences(&buf, 0) == 0, "the displaced element is no longer in the buffer");
        } else {
            chk!(r.is_none(), "push_back with room hands back nothing");
        }
        chk!(crate::tok::drop_events() == 0, "push_back runs no destructor");
        if N > 0 {
            chk!(buf.back().is_some() && buf.back().unwrap().0 == 0x40, "the pushed element is at the back");
        }
    }
    if on!(P, C20) {
        chk!(moved(&buf, &before, len) <= 2, "push_back relocates at most two surviving elements");
    }
    let mut held = Ids::new();
    held.hold(r);
    finish::<N, P>(buf, &m, &held, Created { contents: len, items: 1, sources: 0, made: 0 });
}

pub fn push_front<const N: usize, const P: u32, S: Src>(s: &mut S) {
    let St { mut buf, mut m, len, rot } = build::<N, S>(s);
    let before = addresses(&buf, len);
    let was_full = buf.is_full();
    let back_id = if len > 0 { Some(orig((len - 1) as u8)) } else { None };
    let r = buf.push_front(Tok::new(0x40));
    let e = m.push_front(orig(0x40));
    cov!(len == N && N > 0 && rot == 0, "push_front on a full buffer with front at slot 0");
    cov!(len < N && rot == 0, "push_front with room, front position wraps below zero");
    if on!(P, C01 | C02) {
        chk!(ret_matches(&r, e), "push_front returns exactly the displaced element (model)");
    }
    if on!(P, C02) {
        if N == 0 {
            chk!(r.is_some() && r.as_ref().unwrap().0 == 0x40, "push_front at capacity 0 hands back the pushed element itself");
        } else if was_full {
            chk!(r.is_some() && Some(r.as_ref().unwrap().0 as E) == back_id, "push_front on a full buffer hands back the former back element");
            chk!(occurrences(&buf, (len - 1) as u8) == 0, "the displaced element is no longer in the buffer");
        } else {
            chk!(r.is_none(), "push_front with room hands back nothing");
        }
        chk!(crate::tok::drop_events() == 0, "push_front runs no destructor");
        if N > 0 {
            chk!(buf.front().is_some() && buf.front().unwrap().0 == 0x40, "the pushed element is at the front");
        }
    }
    if on!(P, C20) {
        chk!(moved(&buf, &before, len) <= 2, "push_front relocates at most two surviving elements");
    }
    let mut held = Ids::new();
    held.hold(r);
    finish::<N, P>(buf, &m, &held, Created { contents: len, items: 1, sources: 0, made: 0 });
}

pub fn try_push_back<const N: usize, const P: u32, S: Src>(s: &mut S) {
    let St { mut buf, mut m, len, .. } = build::<N, S>(s);
    let before = addresses(&buf, len);
    let was_full = buf.is_full();
    let r = buf.try_push_back(Tok::new(0x40));
    cov!(was_full, "try_push_back on a full buffer");
    cov!(!was_full, "try_push_back with room");
    let mut held = Ids::new();
    if on!(P, C01 | C02) {
        chk!(r.is_err() == was_full, "try_push_back fails exactly when the buffer is full");
    }
    match r {
        Ok(()) => {
            m.push_back(orig(0x40));
            if on!(P, C02) {
                chk!(buf.len() == len + 1, "try_push_back Ok: length grows by one");
                chk!(buf.back().is_some() && buf.back().unwrap().0 == 0x40, "try_push_back Ok: element is at the back");
            }
        }
        Err(t) => {
            if on!(P, C01 | C02) {
                chk!(t.0 == 0x40, "try_push_back Err carries that very element");
            }
            held.push(t.hold());
        }
    }
    if on!(P, C02) {
        chk!(crate::tok::drop_events() == 0, "try_push_back runs no destructor");
    }
    if on!(P, C20) {
        chk!(moved(&buf, &before, len) <= 2, "try_push_back relocates at most two surviving elements");
    }
    finish::<N, P>(buf, &m, &held, Created { contents: len, items: 1, sources: 0, made: 0 });
}

pub fn try_push_front<const N: usize, const P: u32, S: Src>(s: &mut S) {
    let St { mut buf, mut m, len, .. } = build::<N, S>(s);
    let before = addresses(&buf, len);
    let was_full = buf.is_full();
    let r = buf.try_push_front(Tok::new(0x40));
    cov!(was_full, "try_push_front on a full buffer");
    cov!(!was_full, "try_push_front with room");
    let mut held = Ids::new();
    if on!(P, C01 | C02) {
        chk!(r.is_err() == was_full, "try_push_front fails exactly when the buffer is full");
    }
    match r {
        Ok(()) => {
            m.push_front(orig(0x40));
            if on!(P, C02) {
                chk!(buf.len() == len + 1, "try_push_front Ok: length grows by one");
                chk!(buf.front().is_some() && buf.front().unwrap().0 == 0x40, "try_push_front Ok: element is at the front");
            }
        }
        Err(t) => {
            if on!(P, C01 | C02) {
                chk!(t.0 == 0x40, "try_push_front Err carries that very element");
            }
            held.push(t.hold());
        }
    }
    if on!(P, C02) {
        chk!(crate::tok::drop_events() == 0, "try_push_front runs no destructor");
    }
    if on!(P, C20) {
        chk!(moved(&buf, &before, len) <= 2, "try_push_front relocates at most two surviving elements");
    }
    finish::<N, P>(buf, &m, &held, Created { contents: len, items: 1, sources: 0, made: 0 });
}

// ------------------------------------------------------------------ pop / remove / swap

pub fn pop_back<const N: usize, const P: u32, S: Src>(s: &mut S) {
    let St { mut buf, mut m, len, rot } = build::<N, S>(s);
    let before = addresses(&buf, len);
    let r = buf.pop_back();
    let e = m.pop_back();
    cov!(len == 0, "pop_back on empty");
    cov!(len > 0 && rot + len > N, "pop_back with wrapped contents");
    if on!(P, C01) {
        chk!(ret_matches(&r, e), "pop_back returns the last element (model)");
    }
    if on!(P, C20) {
        chk!(moved(&buf, &before, len) <= 2, "pop_back relocates at most two surviving elements");
    }
    let mut held = Ids::new();
    held.hold(r);
    finish::<N, P>(buf, &m, &held, created(len));
}

pub fn pop_front<const N: usize, const P: u32, S: Src>(s: &mut S) {
    let St { mut buf, mut m, len, rot } = build::<N, S>(s);
    let before = addresses(&buf, len);
    let r = buf.pop_front();
    let e = m.pop_front();
    cov!(len == 0, "pop_front on empty");
    cov!(len > 0 && N > 0 && rot == N - 1, "pop_front with front in the last slot");
    if on!(P, C01) {
        chk!(ret_matches(&r, e), "pop_front returns the first element (model)");
    }
    if on!(P, C20) {
        chk!(moved(&buf, &before, len) <= 2, "pop_front relocates at most two surviving elements");
    }
    let mut held = Ids::new();
    held.hold(r);
    finish::<N, P>(buf, &m, &held, created(len));
}

pub fn remove<const N: usize, const P: u32, S: Src>(s: &mut S) {
    let St { mut buf, mut m, len, rot } = build::<N, S>(s);
    let before = addresses(&buf, len);
    let i = s.usize();
    let r = buf.remove(i);
    let e = m.remove(i);
    cov!(i < len && rot + i >= N, "remove in the wrapped segment");
    cov!(i < len && rot + i < N && rot + len > N, "remove in the first segment of wrapped contents");
    cov!(i == len, "remove at len");
    cov!(i == usize::MAX, "remove at usize::MAX");
    if on!(P, C01) {
        chk!(ret_matches(&r, e), "remove returns the i-th element, or None out of range (model)");
    }
    if on!(P, C20) {
        let mv = moved(&buf, &before, len);
        if i < len {
            chk!(mv <= len - i, "remove(i) relocates at most len-i surviving elements");
        } else {
            chk!(mv == 0, "remove out of range relocates nothing");
        }
    }
    let mut held = Ids::new();
    held.hold(r);
    finish::<N, P>(buf, &m, &held, created(len));
}

pub fn swap<const N: usize, const P: u32, S: Src>(s: &mut S) {
    let St { mut buf, mut m, len, rot } = build::<N, S>(s);
    let before = addresses(&buf, len);
    let i = s.usize();
    let j = s.usize();
    s.assume(i < len && j < len); // the panicking region is C11's
    buf.swap(i, j);
    m.swap(i, j);
    cov!(i == j, "swap of an element with itself");
    cov!(i != j && (rot + i < N) != (rot + j < N), "swap across the wrap");
    if on!(P, C20) {
        let mv = moved(&buf, &before, len);
        chk!(mv <= 2, "swap relocates at most two elements");
        if i == j {
            chk!(mv == 0, "swap(i, i) relocates nothing");
        }
    }
    let held = Ids::new();
    finish::<N, P>(buf, &m, &held, created(len));
}

pub fn swap_remove_back<const N: usize, const P: u32, S: Src>(s: &mut S) {
    let St { mut buf, mut m, len, .. } = build::<N, S>(s);
    let before = addresses(&buf, len);
    let i = s.usize();
    let r = buf.swap_remove_back(i);
    let e = m.swap_remove_back(i);
    cov!(i < len && i + 1 == len, "swap_remove_back of the last element");
    cov!(i < len && i + 1 < len, "swap_remove_back of an inner element");
    cov!(i >= len, "swap_remove_back out of range");
    if on!(P, C01) {
        chk!(ret_matches(&r, e), "swap_remove_back returns the i-th element, or None out of range (model)");
    }
    if on!(P, C20) {
        chk!(moved(&buf, &before, len) <= 2, "swap_remove_back relocates at most two surviving elements");
    }
    let mut held = Ids::new();
    held.hold(r);
    finish::<N, P>(buf, &m, &held, created(len));
}

pub fn swap_remove_front<const N: usize, const P: u32, S: Src>(s: &mut S) {
    let St { mut buf, mut m, len, .. } = build::<N, S>(s);
    let before = addresses(&buf, len);
    let i = s.usize();
    let r = buf.swap_remove_front(i);
    let e = m.swap_remove_front(i);
    cov!(i == 0 && len > 0, "swap_remove_front of the first element");
    cov!(i > 0 && i < len, "swap_remove_front of an inner element");
    cov!(i >= len, "swap_remove_front out of range");
    if on!(P, C01) {
        chk!(ret_matches(&r, e), "swap_remove_front returns the i-th element, or None out of range (model)");
    }
    if on!(P, C20) {
        chk!(moved(&buf, &before, len) <= 2, "swap_remove_front relocates at most two surviving elements");
    }
    let mut held = Ids::new();
    held.hold(r);
    finish::<N, P>(buf, &m, &held, created(len));
}

// ------------------------------------------------------------------ truncate / clear

pub fn truncate_back<const N: usize, const P: u32, S: Src>(s: &mut S) {
    let St { mut buf, mut m, len, rot } = build::<N, S>(s);
    let before = addresses(&buf, len);
    let n = s.usize();
    buf.truncate_back(n);
    m.truncate_back(n);
    if on!(P, C18) {
        let keep = if n < len { n } else { len };
        chk!(dropped_ascending(0, keep, len - keep), "lifecycle: truncate_back destroys the removed elements front to back");
    }
    cov!(n < len && rot + len > N, "truncate_back of wrapped contents");
    cov!(n >= len, "truncate_back with nothing to do");
    cov!(n == 0 && len > 0, "truncate_back to empty");
    if on!(P, C20) {
        chk!(moved(&buf, &before, len) == 0, "truncate_back relocates nothing");
    }
    let held = Ids::new();
    finish::<N, P>(buf, &m, &held, created(len));
}

pub fn truncate_front<const N: usize, const P: u32, S: Src>(s: &mut S) {
    let St { mut buf, mut m, len, rot } = build::<N, S>(s);
    let before = addresses(&buf, len);
    let n = s.usize();
    buf.truncate_front(n);
    m.truncate_front(n);
    if on!(P, C18) {
        let keep = if n < len { n } else { len };
        chk!(dropped_ascending(0, 0, len - keep), "lifecycle: truncate_front destroys the removed elements front to back");
    }
    cov!(n < len && rot + len > N, "truncate_front of wrapped contents");
    cov!(n >= len, "truncate_front with nothing to do");
    cov!(n == usize::MAX, "truncate_front(usize::MAX)");
    if on!(P, C20) {
        chk!(moved(&buf, &before, len) == 0, "truncate_front relocates nothing");
    }
    let held = Ids::new();
    finish::<N, P>(buf, &m, &held, created(len));
}

pub fn clear<const N: usize, const P: u32, S: Src>(s: &mut S) {
    let St { mut buf, mut m, len, rot } = build::<N, S>(s);
    buf.clear();
    m.clear();
    if on!(P, C18) {
        chk!(dropped_ascending(0, 0, len), "lifecycle: clear destroys the elements front to back");
    }
    cov!(len > 0 && rot + len > N, "clear of wrapped contents");
    let held = Ids::new();
    finish::<N, P>(buf, &m, &held, created(len));
}

// ------------------------------------------------------------------ extend family

pub const MAXSRC: usize = 13;

fn sources() -> [Tok; MAXSRC] {
    [
        Tok::new(0x20),
        Tok::new(0x21),
        Tok::new(0x22),
        Tok::new(0x23),
        Tok::new(0x24),
        Tok::new(0x25),
        Tok::new(0x26),
        Tok::new(0x27),
        Tok::new(0x28),
        Tok::new(0x29),
        Tok::new(0x2a),
        Tok::new(0x2b),
        Tok::new(0x2c),
    ]
}

pub fn extend_from_slice<const N: usize, const P: u32, S: Src>(s: &mut S) {
    let St { mut buf, mut m, len, rot } = build::<N, S>(s);
    let src = sources();
    let k = s.usize();
    s.assume(k <= 2 * N + 1 && k <= MAXSRC);
    buf.extend_from_slice(&src[..k]);
    let mut i = 0;
    while i < k {
        m.push_back(clone_of(0x20 + i as u8));
        i += 1;
    }
    let free = N - len;
    cov!(k < free, "extend_from_slice shorter than the free space");
    cov!(k == free && k > 0, "extend_from_slice exactly filling the free space");
    cov!(k > free && k < N, "extend_from_slice overwriting part of the contents");
    cov!(k >= N && N > 0, "extend_from_slice at least as long as the capacity");
    cov!(k > 1 && k <= free && rot + len < N && rot + len + k > N, "extend_from_slice into free space that wraps");
    let mut held = Ids::new();
    let mut i = 0;
    while i < MAXSRC {
        held.push(0x20 + i as u8);
        i += 1;
    }
    core::mem::forget(src);
    finish::<N, P>(buf, &m, &held, Created { contents: len, items: 0, sources: MAXSRC, made: 0 });
}

/// by-value iterator handing out `Tok::new(0x50), Tok::new(0x51), ..`; its `size_hint` is any pair the Iterator
/// contract allows (lower <= remaining <= upper, upper possibly None), chosen by the solver: an implementation
/// may use the hint for reservation or fast paths but must not let it decide the result
pub struct GenIter {
    pub next: u8,
    pub remaining: usize,
    pub slack_lo: usize,
    pub slack_hi: Option<usize>,
    /// not fused: after its first `None` the iterator would hand out this many further objects (ids 0x60..) if it
    /// were polled again; a consumer that stops at the first `None`, as `for` / `for_each` do, never sees them
    pub after_none: usize,
    pub ended: bool,
}
impl GenIter {
    pub fn new(next: u8, remaining: usize) -> GenIter {
        GenIter { next, remaining, slack_lo: 0, slack_hi: Some(0), after_none: 0, ended: false }
    }
    /// symbolic, contract-abiding size hint; symbolic behaviour after the first `None`
    pub fn with_hint<S: Src>(next: u8, remaining: usize, s: &mut S) -> GenIter {
        let slack_lo = s.usize();
        s.assume(slack_lo <= remaining);
        let bounded = s.bool();
        let extra = s.usize();
        let after_none = s.usize();
        s.assume(after_none <= 2);
        GenIter { next, remaining, slack_lo, slack_hi: if bounded { Some(extra) } else { None }, after_none, ended: false }
    }
}
impl Iterator for GenIter {
    type Item = Tok;
    fn next(&mut self) -> Option<Tok> {
        if self.remaining == 0 {
            if !self.ended {
                self.ended = true;
                return None;
            }
            if self.after_none == 0 {
                return None;
            }
            self.after_none -= 1;
            return Some(Tok::new(0x60 + self.after_none as u8));
        }
        self.remaining -= 1;
        if self.slack_lo > self.remaining {
            self.slack_lo = self.remaining;
        }
        let t = Tok::new(self.next);
        self.next += 1;
        Some(t)
    }
    fn size_hint(&self) -> (usize, Option<usize>) {
        (self.remaining - self.slack_lo, match self.slack_hi {
            Some(x) => self.remaining.checked_add(x),
            None => None,
        })
    }
}

pub fn extend<const N: usize, const P: u32, S: Src>(s: &mut S) {
    let St { mut buf, mut m, len, .. } = build::<N, S>(s);
    let k = s.usize();
    s.assume(k <= 2 * N + 1);
    let it = GenIter::with_hint(0x50, k, s);
    cov!(it.size_hint().1.map(|u| u > N && k < N).unwrap_or(false), "extend: the iterator's upper bound exceeds the capacity but it yields fewer elements");
    buf.extend(it);
    let mut i = 0;
    while i < k {
        m.push_back(orig(0x50 + i as u8));
        i += 1;
    }
    let free = N - len;
    cov!(k < free, "extend shorter than the free space");
    cov!(k > free && k < N, "extend overwriting part of the contents");
    cov!(k > N, "extend longer than the capacity");
    let held = Ids::new();
    finish::<N, P>(buf, &m, &held, Created { contents: len, items: 0, sources: 0, made: k });
}

// ------------------------------------------------------------------ fill family

/// value comparison only: which slot holds the original and which the clones is not specified
fn all_have_val<const N: usize>(b: &CircularBuffer<N, Tok>, from: usize, val: u8) -> bool {
    let mut ok = true;
    let mut i = from;
    while i < N {
        match b.get(i) {
            Some(t) => {
                if t.0 & 0x7f != val {
                    ok = false;
                }
            }
            None => ok = false,
        }
        i += 1;
    }
    ok
}

fn prefix_is_iota<const N: usize>(b: &CircularBuffer<N, Tok>, len: usize) -> bool {
    let mut ok = true;
    let mut i = 0;
    while i < len {
        match b.get(i) {
            Some(t) => {
                if t.0 != i as u8 {
                    ok = false;
                }
            }
            None => ok = false,
        }
        i += 1;
    }
    ok
}

fn finish_fill<const N: usize, const P: u32>(mut buf: CircularBuffer<N, Tok>, held: &Ids, c: Created) {
    if on!(P, C03) {
        conserve_all(Some(&buf), held, c);
    }
    if on!(P, C01) {
        closure_probe(&mut buf);
    }
    if on!(P, C03) {
        drop(buf);
        conserve_all::<N>(None, held, c);
    } else {
        core::mem::forget(buf);
    }
}

pub fn fill<const N: usize, const P: u32, S: Src>(s: &mut S) {
    let St { mut buf, len, rot, .. } = build::<N, S>(s);
    buf.fill(Tok::new(0x40));
    cov!(len == 0, "fill of an empty buffer");
    cov!(len == N && N > 0 && rot > 0, "fill of a full rotated buffer");
    if on!(P, C01) {
        chk!(buf.len() == N, "fill: the buffer is full afterwards");
        chk!(buf.is_full(), "fill: is_full()");
        chk!(all_have_val(&buf, 0, 0x40), "fill: every element is the value or a clone of it");
        chk!(buf.iter().len() == N, "fill: iter() has N elements");
    }
    let held = Ids::new();
    finish_fill::<N, P>(buf, &held, Created { contents: len, items: 1, sources: 0, made: 0 });
}

pub fn fill_spare<const N: usize, const P: u32, S: Src>(s: &mut S) {
    let St { mut buf, len, rot, .. } = build::<N, S>(s);
    buf.fill_spare(Tok::new(0x40));
    cov!(len == N, "fill_spare of a full buffer");
    cov!(len < N && rot + len >= N, "fill_spare where the spare space starts after the wrap");
    cov!(len + 1 == N, "fill_spare with exactly one spare slot");
    if on!(P, C01) {
        chk!(buf.len() == N, "fill_spare: the buffer is full afterwards");
        chk!(prefix_is_iota(&buf, len), "fill_spare: existing elements stay in place");
        chk!(all_have_val(&buf, len, 0x40), "fill_spare: every new element is the value or a clone of it");
    }
    let held = Ids::new();
    finish_fill::<N, P>(buf, &held, Created { contents: len, items: 1, sources: 0, made: 0 });
}

pub fn fill_with<const N: usize, const P: u32, S: Src>(s: &mut S) {
    let St { mut buf, len, .. } = build::<N, S>(s);
    let mut k = 0u8;
    buf.fill_with(|| {
        let t = Tok::new(0x50 + k);
        k += 1;
        t
    });
    let mut m = Model::new(N);
    let mut i = 0;
    while i < N {
        m.push_back(orig(0x50 + i as u8));
        i += 1;
    }
    let held = Ids::new();
    finish::<N, P>(buf, &m, &held, Created { contents: len, items: 0, sources: 0, made: k as usize });
}

pub fn fill_spare_with<const N: usize, const P: u32, S: Src>(s: &mut S) {
    let St { mut buf, mut m, len, .. } = build::<N, S>(s);
    let mut k = 0u8;
    buf.fill_spare_with(|| {
        let t = Tok::new(0x50 + k);
        k += 1;
        t
    });
    let mut i = 0;
    while i < N - len {
        m.push_back(orig(0x50 + i as u8));
        i += 1;
    }
    cov!(len == N, "fill_spare_with of a full buffer");
    cov!(len < N, "fill_spare_with with spare slots");
    let held = Ids::new();
    finish::<N, P>(buf, &m, &held, Created { contents: len, items: 0, sources: 0, made: k as usize });
}

// ------------------------------------------------------------------ make_contiguous

pub fn make_contiguous<const N: usize, const P: u32, S: Src>(s: &mut S) {
    let St { mut buf, mut m, len, rot } = build::<N, S>(s);
    let before = addresses(&buf, len);
    let was_contiguous = buf.as_slices().1.is_empty();
    let k = s.usize();
    let mut held = Ids::new();
    let mut wrote = 0;
    cov!(N > 1 && len > 0 && len < N && rot + len == N, "make_contiguous: contents end exactly at the array end");
    cov!(rot + len > N, "make_contiguous: wrapped contents");
    cov!(len == N && N > 1 && rot > 0, "make_contiguous: full and rotated");
    {
        let sl = buf.make_contiguous();
        if on!(P, C01 | C07) {
            chk!(sl.len() == len, "make_contiguous returns all elements in one slice");
            let mut i = 0;
            while i < sl.len() {
                chk!(matches(&sl[i], m.a[i]), "make_contiguous keeps the order of the elements");
                i += 1;
            }
        }
        if k < len && k < sl.len() {
            let old = core::mem::replace(&mut sl[k], Tok::new(0x40));
            held.push(old.hold());
            m.set(k, orig(0x40));
            wrote = 1;
        }
    }
    if on!(P, C07) {
        chk!(buf.as_slices().1.is_empty(), "after make_contiguous as_slices() reports a single slice");
        chk!(buf.as_slices().0.len() == len, "after make_contiguous the first slice holds everything");
    }
    if on!(P, C20) {
        if was_contiguous {
            chk!(moved(&buf, &before, len) == 0, "make_contiguous relocates nothing when the contents are already contiguous");
        }
    }
    finish::<N, P>(buf, &m, &held, Created { contents: len, items: wrote, sources: 0, made: 0 });
}

// ------------------------------------------------------------------ explicit two-step histories (thorough)

/// Two symbolic operations in sequence, compared with the model after each: a cross-check of the
/// induction argument (one step from every invariant state + closure probe), not its basis.
pub fn two_step<const N: usize, const P: u32, S: Src>(s: &mut S) {
    let St { mut buf, mut m, len, .. } = build::<N, S>(s);
    let mut held = Ids::new();
    let mut items = 0;
    let mut step = 0;
    while step < 2 {
        let op = s.u8();
        s.assume(op < 8);
        let a = s.usize();
        match op {
            0 => {
                let r = buf.push_back(Tok::new(0x40 + step));
                let e = m.push_back(orig(0x40 + step));
                chk!(ret_matches(&r, e), "history: push_back returns the displaced element");
                held.hold(r);
                items = step as usize + 1;
            }
            1 => {
                let r = buf.push_front(Tok::new(0x40 + step));
                let e = m.push_front(orig(0x40 + step));
                chk!(ret_matches(&r, e), "history: push_front returns the displaced element");
                held.hold(r);
                items = step as usize + 1;
            }
            2 => {
                let r = buf.pop_back();
                let e = m.pop_back();
                chk!(ret_matches(&r, e), "history: pop_back returns the last element");
                held.hold(r);
            }
            3 => {
                let r = buf.pop_front();
                let e = m.pop_front();
                chk!(ret_matches(&r, e), "history: pop_front returns the first element");
                held.hold(r);
            }
            4 => {
                let r = buf.remove(a);
                let e = m.remove(a);
                chk!(ret_matches(&r, e), "history: remove returns the a-th element");
                held.hold(r);
            }
            5 => {
                let r = buf.swap_remove_front(a);
                let e = m.swap_remove_front(a);
                chk!(ret_matches(&r, e), "history: swap_remove_front returns the a-th element");
                held.hold(r);
            }
            6 => {
                buf.truncate_front(a);
                m.truncate_front(a);
            }
            _ => {
                s.assume(a <= m.len);
                let d = buf.drain(..a);
                drop(d);
                m.remove_range(0, a);
            }
        }
        observe_eq(&buf, &m);
        step += 1;
    }
    finish::<N, P>(buf, &m, &held, Created { contents: len, items: 0, sources: 0, made: 0 });
    let _ = items;
}

// ------------------------------------------------------------------ Extend<&T> for Copy elements

/// `extend(iter of &u8)`: appends copies, evicting from the front (byte buffer, byte model)
pub fn extend_ref<const N: usize, const P: u32, S: Src>(s: &mut S) {
    let crate::state::BSt { mut buf, mut m, rot } = crate::state::build_u8::<N, S>(s);
    let k = s.usize();
    s.assume(k <= 2 * N + 1 && k <= crate::model::CAP);
    let mut src = [0u8; crate::model::CAP];
    let mut i = 0;
    while i < k {
        src[i] = s.u8();
        i += 1;
    }
    cov!(k > N, "extend(&T) longer than the capacity");
    cov!(k > 0 && k < N && rot + m.len + k > N, "extend(&T) wrapping around the array end");
    buf.extend(src[..k].iter());
    let mut i = 0;
    while i < k {
        m.push_back(src[i]);
        i += 1;
    }
    chk!(buf.len() == m.len, "extend(&T): length as specified");
    let mut i = 0;
    while i <= N {
        match buf.get(i) {
            Some(v) => chk!(i < m.len && *v == m.a[i], "extend(&T): old elements then the copies, last N kept, in order"),
            None => chk!(i >= m.len, "extend(&T): no element is missing"),
        }
        i += 1;
    }
    chk!(buf.iter().len() == m.len, "extend(&T): iter() length agrees");
}
