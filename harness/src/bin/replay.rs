fn main() {
    std::process::exit(cbv::generated::replay_main());
}
