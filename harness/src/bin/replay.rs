use std::alloc::{GlobalAlloc, Layout, System};
use std::sync::atomic::Ordering;

/// counts heap allocations while `ALLOC_ARMED` is set (native stand-in for Kani's allocator stub, C17)
struct Counting;
unsafe impl GlobalAlloc for Counting {
    unsafe fn alloc(&self, l: Layout) -> *mut u8 {
        if cbv::generated::ALLOC_ARMED.load(Ordering::Relaxed) {
            cbv::generated::ALLOC_COUNT.fetch_add(1, Ordering::Relaxed);
        }
        System.alloc(l)
    }
    unsafe fn dealloc(&self, p: *mut u8, l: Layout) {
        System.dealloc(p, l)
    }
    unsafe fn realloc(&self, p: *mut u8, l: Layout, n: usize) -> *mut u8 {
        if cbv::generated::ALLOC_ARMED.load(Ordering::Relaxed) {
            cbv::generated::ALLOC_COUNT.fetch_add(1, Ordering::Relaxed);
        }
        System.realloc(p, l, n)
    }
}
#[global_allocator]
static A: Counting = Counting;

fn main() {
    std::process::exit(cbv::generated::replay_main());
}
