//! Scenario library for solver-based checking of `circular-buffer` (see /verif/DESIGN.md §2.1).
//!
//! Every check is a *scenario function* `fn xxx<const N: usize, const P: u32, S: Src>(s: &mut S)`
//! drawing all inputs from `S`.  Under Kani `S = KaniSrc` (symbolic values, decided by CBMC);
//! natively `S = ReplaySrc` (bytes of a Kani counterexample), which is the replayer.
//! `P` is a bit mask selecting the assertion groups of the property a harness belongs to, so a
//! harness registered for property X fails only for X's obligations.
#![allow(clippy::all)]
#![allow(static_mut_refs)]
#![allow(dead_code)]
#![allow(unused_macros)]
// Kani builds with a nightly toolchain; the async scenarios poll with `Waker::noop()` (stable
// since 1.85), nothing unstable is needed here.

pub mod src;
#[macro_use]
pub mod chk;
pub mod tok;
pub mod model;
pub mod state;
pub mod obs;
pub mod stubs;

pub mod s_mut;
pub mod s_view;
pub mod s_iter;
pub mod s_drain;
pub mod s_panic;
pub mod s_ctor;
pub mod s_cmp;
pub mod s_io;
pub mod s_zst;
pub mod s_two;

pub mod generated;
#[cfg(not(kani))]
pub mod e2replay;

/// Property masks (bit k = property Ck).
pub const C01: u32 = 1 << 1;
pub const C02: u32 = 1 << 2;
pub const C03: u32 = 1 << 3;
pub const C04: u32 = 1 << 4;
pub const C05: u32 = 1 << 5;
pub const C06: u32 = 1 << 6;
pub const C07: u32 = 1 << 7;
pub const C08: u32 = 1 << 8;
pub const C09: u32 = 1 << 9;
pub const C10: u32 = 1 << 10;
pub const C11: u32 = 1 << 11;
pub const C12: u32 = 1 << 12;
pub const C13: u32 = 1 << 13;
pub const C14: u32 = 1 << 14;
pub const C16: u32 = 1 << 16;
pub const C17: u32 = 1 << 17;
pub const C18: u32 = 1 << 18;
pub const C19: u32 = 1 << 19;
pub const C20: u32 = 1 << 20;
/// every functional group (used by the configuration properties C17/C18)
pub const ALL: u32 = C01 | C02 | C03 | C07 | C08 | C09 | C10 | C12 | C13 | C14 | C20;
/// C18 harnesses: every functional group plus the lifecycle-order obligations
pub const ALL18: u32 = ALL | C18;
