//! C09: drain removes exactly the requested range.  C10: leaking a drain is safe.

use crate::model::orig;
use crate::obs::*;
use crate::s_iter::SymRange;
use crate::s_mut::{addresses, created, finish, moved, Created};
use crate::src::Src;
use crate::state::{build, St};
use crate::tok::{drops, Ids, Tok};
use crate::*;

/// `drain(R)` + symbolic consumption script + drop
pub fn drain<const N: usize, const P: u32, S: Src>(s: &mut S) {
    let St { mut buf, mut m, len, rot } = build::<N, S>(s);
    let before = addresses(&buf, len);
    let r = SymRange::any(s);
    s.assume(!r.must_panic(len)); // the panicking region is C11's
    let (a, b) = r.math(len);
    let (a, b) = (a as usize, b as usize);
    cov!(a == b, "drain of an empty range");
    cov!(a == 0 && b == len && len > 0, "drain of the full range");
    cov!(a > 0 && b < len && a < b, "drain with a hole in the middle");
    cov!(a > 0 && a < b && b < len && rot + b < N && rot + len > N, "(N>=4) drain: hole in the middle, tail wraps around the array end");
    cov!(a < b && rot + a < N && rot + b > N, "drain: the drained range itself wraps");
    let (mut lo, mut hi) = (a, b);
    let mut held = Ids::new();
    {
        let mut d = buf.drain(r);
        let steps = s.usize();
        s.assume(steps <= N + 1);
        let mut k = 0;
        while k < steps {
            if on!(P, C09 | C01) {
                chk!(d.len() == hi - lo, "drain: len() is exact at every step");
                chk!(d.size_hint() == (hi - lo, Some(hi - lo)), "drain: size_hint() is exact at every step");
            }
            let front = s.bool();
            let t = if front { d.next() } else { d.next_back() };
            match t {
                Some(t) => {
                    if on!(P, C09 | C01) {
                        chk!(lo < hi, "drain yields nothing once exhausted");
                        if front {
                            chk!(t.0 as usize == lo, "drain.next() yields the range in ascending position");
                        } else {
                            chk!(t.0 as usize == hi - 1, "drain.next_back() yields the range in descending position");
                        }
                    }
                    if front {
                        lo += 1;
                    } else {
                        hi -= 1;
                    }
                    held.push(t.hold());
                }
                None => {
                    if on!(P, C09 | C01) {
                        chk!(lo == hi, "drain: None only when the range is exhausted");
                    }
                }
            }
            k += 1;
        }
        cov!(steps > 0 && lo < hi && lo > a && hi < b, "drain dropped part-way after steps from both ends");
        cov!(steps == 0 && a < b, "drain dropped without any step");
        drop(d);
    }
    if on!(P, C18) {
        chk!(crate::s_mut::dropped_ascending(0, lo, hi - lo), "lifecycle: dropping a drain destroys the remaining drained elements front to back");
    }
    m.remove_range(a, b);
    if on!(P, C09 | C03) && crate::tok::TRACK {
        // un-yielded drained elements destroyed exactly once, everything else untouched
        let mut i = 0;
        while i < len {
            let expect = if i >= lo && i < hi { 1 } else { 0 };
            chk!(drops(i as u8) == expect, "drain: exactly the drained elements not handed out are destroyed, once");
            i += 1;
        }
    }
    if on!(P, C20) {
        let mv = moved(&buf, &before, len);
        chk!(mv <= len - b, "drain(i..j) relocates at most len-j surviving elements");
    }
    finish::<N, P>(buf, &m, &held, created(len));
}

/// `drain(R)` + script + `mem::forget` + one further operation + final drop (C10).
/// The post-condition is the *relation* the property states, not today's behaviour.
pub fn drain_forget<const N: usize, const P: u32, S: Src>(s: &mut S) {
    let St { mut buf, len, rot, .. } = build::<N, S>(s);
    let r = SymRange::any(s);
    s.assume(!r.must_panic(len));
    let (a, b) = r.math(len);
    let (a, b) = (a as usize, b as usize);
    let (mut lo, mut hi) = (a, b);
    let mut held = Ids::new();
    cov!(a < b && rot + len > N, "drain_forget: wrapped contents");
    let steps;
    {
        let mut d = buf.drain(r);
        steps = s.usize();
        s.assume(steps <= N + 1);
        let mut k = 0;
        while k < steps {
            let front = s.bool();
            let t = if front { d.next() } else { d.next_back() };
            if let Some(t) = t {
                if front {
                    lo += 1;
                } else {
                    hi -= 1;
                }
                held.push(t.hold());
            }
            k += 1;
        }
        core::mem::forget(d);
    }
    cov!(steps == 0, "drain forgotten before any step");
    cov!(lo == hi && a < b, "drain forgotten after yielding the whole range");
    cov!(steps > 0 && lo < hi, "drain forgotten part-way");
    // the buffer is a valid sequence of live, distinct, original, not-handed-out elements
    leaked_state_ok(&buf, &held, len);
    // ... and keeps working normally: one further operation, then the relation again
    let op = s.u8();
    s.assume(op < 6);
    let arg = s.usize();
    let mut extra = 0;
    match op {
        0 => {
            let r = buf.push_back(Tok::new(0x40));
            extra = 1;
            held.hold(r);
        }
        1 => {
            let r = buf.push_front(Tok::new(0x40));
            extra = 1;
            held.hold(r);
        }
        2 => {
            let r = buf.pop_front();
            held.hold(r);
        }
        3 => {
            let r = buf.remove(arg);
            held.hold(r);
        }
        4 => buf.truncate_back(arg),
        _ => buf.clear(),
    }
    chk!(buf.len() <= N, "after a leaked drain and one more operation: len <= N");
    let mut i = 0;
    while i < N {
        if let Some(t) = buf.get(i) {
            chk!(drops(t.0) == 0, "after a leaked drain: every visible element is live");
            chk!(held.count(t.0) == 0, "after a leaked drain: no visible element is also owned by the caller");
            chk!(occurrences(&buf, t.0) == 1, "after a leaked drain: visible elements are distinct");
        }
        i += 1;
    }
    closure_probe(&mut buf);
    drop(buf);
    let mut i = 0;
    while i < len {
        chk!(drops(i as u8) <= 1, "after a leaked drain: no element is ever destroyed twice");
        chk!(!(drops(i as u8) == 1 && held.count(i as u8) > 0), "after a leaked drain: no element owned by the caller is destroyed");
        i += 1;
    }
    if extra == 1 {
        chk!(drops(0x40) + held.count(0x40) as u8 <= 1, "after a leaked drain: the pushed element is not duplicated");
    }
    conserve_flags();
}

fn leaked_state_ok<const N: usize>(buf: &circular_buffer::CircularBuffer<N, Tok>, held: &Ids, len: usize) {
    chk!(buf.len() <= N, "leaked drain: len <= N");
    let mut cnt = 0;
    let mut i = 0;
    while i <= N {
        match buf.get(i) {
            Some(t) => {
                chk!(i < buf.len(), "leaked drain: get(i) is None for i >= len");
                chk!((t.0 as usize) < len, "leaked drain: visible elements are drawn from the original contents");
                chk!(drops(t.0) == 0, "leaked drain: visible elements are live");
                chk!(held.count(t.0) == 0, "leaked drain: visible elements are disjoint from those handed out");
                chk!(occurrences(buf, t.0) == 1, "leaked drain: visible elements are distinct");
                cnt += 1;
            }
            None => chk!(i >= buf.len(), "leaked drain: get(i) is Some for i < len"),
        }
        i += 1;
    }
    chk!(cnt == buf.len(), "leaked drain: length is consistent with the visible elements");
    chk!(buf.iter().len() == buf.len(), "leaked drain: iter() length is consistent");
    let (x, y) = buf.as_slices();
    chk!(x.len() + y.len() == buf.len(), "leaked drain: as_slices() lengths are consistent");
}

/// Debug of a Drain shows the remaining range (recorded through the element's Debug)
pub fn drain_debug<const N: usize, const P: u32, S: Src>(s: &mut S) {
    use crate::s_cmp::{dbg_reset, dbg_seen, Sink, D};
    use core::fmt::Write;
    let mut buf = circular_buffer::CircularBuffer::<N, D>::new();
    let rot = s.usize();
    s.assume(if N == 0 { rot == 0 } else { rot < N });
    let mut i = 0;
    while i < rot {
        buf.push_back(D(0xEE));
        buf.pop_front();
        i += 1;
    }
    let len = s.usize();
    s.assume(len <= N);
    let mut i = 0;
    while i < len {
        buf.push_back(D(i as u8));
        i += 1;
    }
    let a = s.usize();
    let b = s.usize();
    s.assume(a <= b && b <= len);
    let mut d = buf.drain(a..b);
    let (mut lo, mut hi) = (a, b);
    let steps = s.usize();
    s.assume(steps <= 2);
    let mut k = 0;
    while k < steps {
        if s.bool() {
            if d.next().is_some() {
                lo += 1;
            }
        } else if d.next_back().is_some() {
            hi -= 1;
        }
        k += 1;
    }
    dbg_reset();
    let mut sink = Sink::new();
    let r = write!(sink, "{:?}", d);
    chk!(r.is_ok(), "Debug for Drain succeeds");
    let seen = dbg_seen();
    chk!(seen.n == hi - lo, "Debug for Drain shows exactly the remaining elements");
    let mut i = 0;
    while i < hi - lo && i < seen.ids.len() {
        chk!(seen.ids[i] == (lo + i) as u8, "Debug for Drain shows the remaining elements in order");
        i += 1;
    }
}

/// element without drop glue that is not `Copy`: "already handed out" must also hold for types
/// whose duplication no destructor would ever reveal (C10)
pub struct Plain(pub u8);

/// `drain_forget` for an element type without a destructor
pub fn drain_forget_plain<const N: usize, const P: u32, S: Src>(s: &mut S) {
    let mut buf = circular_buffer::CircularBuffer::<N, Plain>::new();
    let rot = s.usize();
    s.assume(if N == 0 { rot == 0 } else { rot < N });
    let mut i = 0;
    while i < rot {
        buf.push_back(Plain(0xEE));
        buf.pop_front();
        i += 1;
    }
    let len = s.usize();
    s.assume(len <= N);
    let mut i = 0;
    while i < len {
        buf.push_back(Plain(i as u8));
        i += 1;
    }
    let r = SymRange::any(s);
    s.assume(!r.must_panic(len));
    let mut held = Ids::new();
    {
        let mut d = buf.drain(r);
        let steps = s.usize();
        s.assume(steps <= N + 1);
        let mut k = 0;
        while k < steps {
            let t = if s.bool() { d.next() } else { d.next_back() };
            if let Some(t) = t {
                held.push(t.0);
            }
            k += 1;
        }
        cov!(held.n > 0, "plain: drain forgotten after handing out elements");
        core::mem::forget(d);
    }
    chk!(buf.len() <= N, "leaked drain (plain elements): len <= N");
    let mut cnt = 0;
    let mut i = 0;
    while i <= N {
        match buf.get(i) {
            Some(t) => {
                chk!(i < buf.len(), "leaked drain (plain elements): get(i) is None for i >= len");
                chk!((t.0 as usize) < len, "leaked drain (plain elements): visible elements are drawn from the original contents");
                chk!(held.count(t.0) == 0, "leaked drain (plain elements): visible elements are disjoint from those handed out");
                let mut j = 0;
                while j < i {
                    chk!(buf.get(j).map(|x| x.0) != Some(t.0), "leaked drain (plain elements): visible elements are distinct");
                    j += 1;
                }
                cnt += 1;
            }
            None => chk!(i >= buf.len(), "leaked drain (plain elements): get(i) is Some for i < len"),
        }
        i += 1;
    }
    chk!(cnt == buf.len(), "leaked drain (plain elements): length is consistent with the visible elements");
    // keeps working: push/pop still behave
    if N > 0 {
        let before = buf.len();
        let r = buf.push_back(Plain(0x40));
        chk!(r.is_none() == (before < N), "leaked drain (plain elements): push_back behaves normally afterwards");
        chk!(buf.back().map(|x| x.0) == Some(0x40), "leaked drain (plain elements): the pushed element is at the back");
    }
}

/// `Drain` through the adaptor-style `Iterator` methods (`nth`, `nth_back`, `count`, `last`): whatever the type
/// overrides, or the default implementations, must take every skipped element out of the drain and destroy it
pub fn drain_adaptors<const N: usize, const KIND: usize, const P: u32, S: Src>(s: &mut S) {
    let St { mut buf, mut m, len, .. } = build::<N, S>(s);
    let a = s.usize();
    let b = s.usize();
    s.assume(a <= b && b <= len);
    let (mut lo, mut hi) = (a, b);
    let mut held = Ids::new();
    {
        let mut d = buf.drain(a..b);
        // one ordinary step first, so that the adaptor starts from a partly consumed drain
        let pre = s.u8();
        s.assume(pre < 3);
        if pre == 1 {
            if let Some(t) = d.next() {
                lo += 1;
                held.push(t.hold());
            }
        } else if pre == 2 {
            if let Some(t) = d.next_back() {
                hi -= 1;
                held.push(t.hold());
            }
        }
        // KIND (compile time): 0 nth, 1 nth_back, 2 count, 3 last
        let kind = KIND;
        let skip = s.usize();
        s.assume(skip <= 2);
        let avail = hi - lo;
        cov!(skip > 0 && skip < avail, "drain adaptor skipping some but not all remaining elements");
        match kind {
            0 | 1 => {
                let t = if kind == 0 { d.nth(skip) } else { d.nth_back(skip) };
                if skip < avail {
                    let want = if kind == 0 { lo + skip } else { hi - 1 - skip };
                    chk!(t.is_some() && t.as_ref().unwrap().0 as usize == want, "drain.nth(k) / nth_back(k) yields the k-th remaining element from that end");
                    if kind == 0 {
                        lo += skip + 1;
                    } else {
                        hi -= skip + 1;
                    }
                    chk!(d.len() == hi - lo, "drain: len() is exact after nth / nth_back");
                } else {
                    chk!(t.is_none(), "drain.nth(k) / nth_back(k) is None when fewer than k+1 elements remain");
                }
                held.hold(t);
                drop(d);
            }
            2 => {
                let c = d.count();
                chk!(c == avail, "drain.count() is the number of elements not yet produced");
            }
            _ => {
                let l = d.last();
                chk!(l.is_some() == (avail > 0), "drain.last() is Some exactly when elements remain");
                if let Some(t) = l {
                    chk!(t.0 as usize == hi - 1, "drain.last() is the last element of the range not yet produced");
                    held.push(t.hold());
                }
            }
        }
    }
    m.remove_range(a, b);
    if on!(P, C09 | C03) && crate::tok::TRACK {
        let mut i = 0;
        while i < len {
            let expect = if i >= a && i < b && held.count(i as u8) == 0 { 1 } else { 0 };
            chk!(drops(i as u8) == expect, "drain adaptors: every drained element not handed to the caller is destroyed exactly once");
            i += 1;
        }
    }
    finish::<N, P>(buf, &m, &held, created(len));
}
