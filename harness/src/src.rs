//! Input sources: symbolic (Kani) and recorded (native replay).

pub trait Src {
    fn usize(&mut self) -> usize;
    fn u8(&mut self) -> u8;
    fn bool(&mut self) -> bool;
    /// restrict the input space (kani::assume / replay: reject the run)
    fn assume(&mut self, c: bool);
    /// `usize` in `0..=max`
    fn upto(&mut self, max: usize) -> usize {
        let v = self.usize();
        self.assume(v <= max);
        v
    }
}

#[cfg(kani)]
pub struct KaniSrc;

#[cfg(kani)]
impl Src for KaniSrc {
    #[inline(always)]
    fn usize(&mut self) -> usize {
        kani::any()
    }
    #[inline(always)]
    fn u8(&mut self) -> u8 {
        kani::any()
    }
    #[inline(always)]
    fn bool(&mut self) -> bool {
        kani::any()
    }
    #[inline(always)]
    fn assume(&mut self, c: bool) {
        kani::assume(c)
    }
}

/// Replays the byte vectors printed by `cargo kani --concrete-playback=print`
/// (one vector per `kani::any()` call, in call order, little endian).
pub struct ReplaySrc {
    pub vals: Vec<Vec<u8>>,
    pub pos: usize,
}

/// Panic payload used when a replayed input violates an `assume`.
pub const ASSUME_REJECTED: &str = "ASSUME_REJECTED";

impl ReplaySrc {
    pub fn new(vals: Vec<Vec<u8>>) -> Self {
        Self { vals, pos: 0 }
    }
    fn take(&mut self) -> u64 {
        // no allocation here: the C17 replays count allocations while a scenario runs
        let mut x = 0u64;
        if let Some(v) = self.vals.get(self.pos) {
            for (i, b) in v.iter().enumerate().take(8) {
                x |= (*b as u64) << (8 * i);
            }
        }
        self.pos += 1;
        x
    }
}

impl Src for ReplaySrc {
    fn usize(&mut self) -> usize {
        self.take() as usize
    }
    fn u8(&mut self) -> u8 {
        self.take() as u8
    }
    fn bool(&mut self) -> bool {
        self.take() & 1 == 1
    }
    fn assume(&mut self, c: bool) {
        if !c {
            std::panic::panic_any(ASSUME_REJECTED);
        }
    }
}
