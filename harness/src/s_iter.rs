//! C08: iterators obey the double-ended exact-size protocol, for every RangeBounds form.

use crate::model::CAP;
use crate::s_mut::{created, finish};
use crate::src::Src;
use crate::state::{build, St};
use crate::tok::{Ids, Tok};
use crate::*;
use core::ops::Bound;
use core::ops::RangeBounds;

/// A `RangeBounds<usize>` whose two bounds have symbolic variant and value.
pub struct SymRange {
    pub s: Bound<usize>,
    pub e: Bound<usize>,
}

impl RangeBounds<usize> for SymRange {
    fn start_bound(&self) -> Bound<&usize> {
        match &self.s {
            Bound::Included(x) => Bound::Included(x),
            Bound::Excluded(x) => Bound::Excluded(x),
            Bound::Unbounded => Bound::Unbounded,
        }
    }
    fn end_bound(&self) -> Bound<&usize> {
        match &self.e {
            Bound::Included(x) => Bound::Included(x),
            Bound::Excluded(x) => Bound::Excluded(x),
            Bound::Unbounded => Bound::Unbounded,
        }
    }
}

pub fn any_bound<S: Src>(s: &mut S) -> Bound<usize> {
    let k = s.u8();
    s.assume(k < 3);
    let v = s.usize();
    match k {
        0 => Bound::Included(v),
        1 => Bound::Excluded(v),
        _ => Bound::Unbounded,
    }
}

impl SymRange {
    pub fn any<S: Src>(s: &mut S) -> SymRange {
        SymRange { s: any_bound(s), e: any_bound(s) }
    }
    /// mathematical (start, end) of the range over a sequence of length `len`, without wrap
    pub fn math(&self, len: usize) -> (u128, u128) {
        let a = match self.s {
            Bound::Included(x) => x as u128,
            Bound::Excluded(x) => x as u128 + 1,
            Bound::Unbounded => 0,
        };
        let b = match self.e {
            Bound::Included(x) => x as u128 + 1,
            Bound::Excluded(x) => x as u128,
            Bound::Unbounded => len as u128,
        };
        (a, b)
    }
    /// the documented panic condition of range/range_mut/drain
    pub fn must_panic(&self, len: usize) -> bool {
        let (a, b) = self.math(len);
        a > b || b > len as u128
    }
    pub fn copy(&self) -> SymRange {
        SymRange { s: self.s, e: self.e }
    }
}

fn id_of(t: Option<&Tok>) -> Option<u8> {
    t.map(|t| t.0)
}

/// `range(R)` / `iter()`: symbolic script over {next, next_back, len+size_hint, clone-and-step}
pub fn iter_script<const N: usize, const P: u32, S: Src>(s: &mut S) {
    let St { buf, len, rot, .. } = build::<N, S>(s);
    let whole = s.bool();
    let r = SymRange::any(s);
    s.assume(!r.must_panic(len)); // the panicking region is C11's
    let (a, b) = r.math(len);
    let (mut lo, mut hi) = if whole { (0, len) } else { (a as usize, b as usize) };
    cov!(!whole && lo < hi && rot + lo < N && rot + hi > N, "range selection spans the wrap");
    cov!(!whole && lo == hi, "empty range selection");
    cov!(!whole && matches!(r.s, Bound::Excluded(_)) && matches!(r.e, Bound::Included(_)), "range with Excluded start and Included end");
    let mut it = if whole { buf.iter() } else { buf.range(r) };
    let steps = s.usize();
    s.assume(steps <= N + 2);
    let mut k = 0;
    while k < steps {
        chk!(it.len() == hi - lo, "len() equals the number of elements not yet produced");
        chk!(it.size_hint() == (hi - lo, Some(hi - lo)), "size_hint() equals the number of elements not yet produced");
        let which = s.u8();
        s.assume(which < 3);
        if which == 0 {
            match it.next() {
                Some(t) => {
                    chk!(lo < hi, "next() yields nothing once exhausted");
                    chk!(t.0 as usize == lo, "next() yields the selected elements in ascending position");
                    lo += 1;
                }
                None => chk!(lo == hi, "next() is None only when exhausted"),
            }
        } else if which == 1 {
            match it.next_back() {
                Some(t) => {
                    chk!(lo < hi, "next_back() yields nothing once exhausted");
                    chk!(t.0 as usize == hi - 1, "next_back() yields the selected elements in descending position");
                    hi -= 1;
                }
                None => chk!(lo == hi, "next_back() is None only when exhausted"),
            }
        } else {
            // a clone continues independently from the same point
            let mut c = it.clone();
            chk!(c.len() == hi - lo, "a cloned Iter has the same remaining length");
            let x = id_of(c.next());
            chk!(x == if lo < hi { Some(lo as u8) } else { None }, "a cloned Iter continues from the same point");
            chk!(it.len() == hi - lo, "advancing a clone does not move the original");
        }
        k += 1;
    }
    cov!(steps > 0 && lo == hi && !whole && a < b, "script exhausts a non-empty selection");
    // drain the rest from the front: exactly the remaining elements, then None forever
    let mut g = 0;
    while g <= N {
        match it.next() {
            Some(t) => {
                chk!(lo < hi && t.0 as usize == lo, "the remaining elements are produced exactly once, in order");
                lo += 1;
            }
            None => chk!(lo == hi, "None only after every selected element was produced"),
        }
        g += 1;
    }
    chk!(lo == hi, "every selected element is produced");
    chk!(it.next().is_none() && it.next_back().is_none(), "None forever after exhaustion");
    chk!(it.len() == 0, "len() is 0 after exhaustion");
    core::mem::forget(buf);
}

/// `range_mut(R)` / `iter_mut()`: same protocol (no clone), yielded references are distinct
pub fn iter_mut_script<const N: usize, const P: u32, S: Src>(s: &mut S) {
    let St { mut buf, len, rot, m } = build::<N, S>(s);
    let whole = s.bool();
    let r = SymRange::any(s);
    s.assume(!r.must_panic(len));
    let (a, b) = r.math(len);
    let (mut lo, mut hi) = if whole { (0, len) } else { (a as usize, b as usize) };
    cov!(!whole && lo < hi && rot + lo < N && rot + hi > N, "range_mut selection spans the wrap");
    let mut seen = [0usize; CAP];
    let mut nseen = 0;
    {
        let mut it = if whole { buf.iter_mut() } else { buf.range_mut(r) };
        let steps = s.usize();
        s.assume(steps <= N + 2);
        let mut k = 0;
        while k < steps {
            chk!(it.len() == hi - lo, "len() equals the number of elements not yet produced");
            chk!(it.size_hint() == (hi - lo, Some(hi - lo)), "size_hint() equals the number of elements not yet produced");
            let front = s.bool();
            if front {
                match it.next() {
                    Some(t) => {
                        chk!(lo < hi && t.0 as usize == lo, "next() yields the selected elements in ascending position");
                        lo += 1;
                        if nseen < CAP {
                            seen[nseen] = t as *mut Tok as usize;
                        }
                        nseen += 1;
                    }
                    None => chk!(lo == hi, "next() is None only when exhausted"),
                }
            } else {
                match it.next_back() {
                    Some(t) => {
                        chk!(lo < hi && t.0 as usize == hi - 1, "next_back() yields the selected elements in descending position");
                        hi -= 1;
                        if nseen < CAP {
                            seen[nseen] = t as *mut Tok as usize;
                        }
                        nseen += 1;
                    }
                    None => chk!(lo == hi, "next_back() is None only when exhausted"),
                }
            }
            k += 1;
        }
        let mut g = 0;
        while g <= N {
            match it.next() {
                Some(t) => {
                    chk!(lo < hi && t.0 as usize == lo, "the remaining elements are produced exactly once, in order");
                    lo += 1;
                    if nseen < CAP {
                        seen[nseen] = t as *mut Tok as usize;
                    }
                    nseen += 1;
                }
                None => chk!(lo == hi, "None only after every selected element was produced"),
            }
            g += 1;
        }
        chk!(lo == hi, "every selected element is produced");
        chk!(it.next().is_none() && it.next_back().is_none(), "None forever after exhaustion");
    }
    let mut i = 0;
    while i < nseen && i < CAP {
        let mut j = i + 1;
        while j < nseen && j < CAP {
            chk!(seen[i] != seen[j], "no element is yielded twice by a mutable iterator");
            j += 1;
        }
        i += 1;
    }
    let held = Ids::new();
    finish::<N, P>(buf, &m, &held, created(len));
}

/// `into_iter()`: owning iterator, elements are moved out; dropped after any number of steps
pub fn into_iter_script<const N: usize, const P: u32, S: Src>(s: &mut S) {
    let St { buf, len, rot, .. } = build::<N, S>(s);
    cov!(rot + len > N, "into_iter of wrapped contents");
    let (mut lo, mut hi) = (0usize, len);
    let mut held = Ids::new();
    let mut it = buf.into_iter();
    let steps = s.usize();
    s.assume(steps <= N + 2);
    let mut k = 0;
    while k < steps {
        if on!(P, C08 | C12) {
            chk!(it.len() == hi - lo, "len() equals the number of elements not yet produced");
            chk!(it.size_hint() == (hi - lo, Some(hi - lo)), "size_hint() equals the number of elements not yet produced");
        }
        let front = s.bool();
        let t = if front { it.next() } else { it.next_back() };
        match t {
            Some(t) => {
                if on!(P, C08 | C12) {
                    chk!(lo < hi, "owning iterator yields nothing once exhausted");
                    if front {
                        chk!(t.0 as usize == lo, "next() yields the elements in ascending position");
                    } else {
                        chk!(t.0 as usize == hi - 1, "next_back() yields the elements in descending position");
                    }
                }
                if front {
                    lo += 1;
                } else {
                    hi -= 1;
                }
                held.push(t.hold());
            }
            None => {
                if on!(P, C08 | C12) {
                    chk!(lo == hi, "None only when exhausted");
                }
            }
        }
        k += 1;
    }
    cov!(steps > 0 && lo < hi, "owning iterator dropped part-way");
    cov!(lo == hi && len > 0, "owning iterator fully consumed");
    drop(it);
    if on!(P, C03 | C08) && crate::tok::TRACK {
        // yielded elements belong to the caller, the others were destroyed exactly once
        crate::obs::conserve_range::<N>(None, &held, 0, len);
        crate::obs::conserve_flags();
        let mut i = 0;
        while i < len {
            let yielded = held.count(i as u8) == 1;
            chk!(crate::tok::drops(i as u8) == if yielded { 0 } else { 1 }, "dropping the owning iterator destroys exactly the elements not handed out");
            i += 1;
        }
    }
}

/// default-constructed iterators are empty
pub fn iter_default<const N: usize, const P: u32, S: Src>(_s: &mut S) {
    let mut it: circular_buffer::Iter<'static, Tok> = Default::default();
    chk!(it.len() == 0, "Iter::default() has length 0");
    chk!(it.size_hint() == (0, Some(0)), "Iter::default() size_hint is 0");
    chk!(it.next().is_none(), "Iter::default().next() is None");
    chk!(it.next_back().is_none(), "Iter::default().next_back() is None");
    let mut c = it.clone();
    chk!(c.next().is_none(), "a clone of Iter::default() is empty");
    let mut im: circular_buffer::IterMut<'static, Tok> = Default::default();
    chk!(im.len() == 0, "IterMut::default() has length 0");
    chk!(im.next().is_none(), "IterMut::default().next() is None");
    chk!(im.next_back().is_none(), "IterMut::default().next_back() is None");
}

/// `Iter` / `IterMut` through `nth`, `nth_back`, `count`, `last` after one ordinary step
pub fn iter_adaptors<const N: usize, const P: u32, S: Src>(s: &mut S) {
    let St { mut buf, len, .. } = build::<N, S>(s);
    let a = s.usize();
    let b = s.usize();
    s.assume(a <= b && b <= len);
    let (mut lo, mut hi) = (a, b);
    let mutable = s.bool();
    let pre = s.u8();
    s.assume(pre < 3);
    let kind = s.u8();
    s.assume(kind < 4);
    let skip = s.usize();
    s.assume(skip <= 2);
    cov!(kind == 1 && skip > 0 && skip + 1 < b - a, "nth_back(k) skipping some but not all selected elements");
    macro_rules! body {
        ($it:expr) => {{
            let mut it = $it;
            if pre == 1 {
                if it.next().is_some() {
                    lo += 1;
                }
            } else if pre == 2 {
                if it.next_back().is_some() {
                    hi -= 1;
                }
            }
            let avail = hi - lo;
            match kind {
                0 | 1 => {
                    let r = if kind == 0 { it.nth(skip).map(|t| t.0) } else { it.nth_back(skip).map(|t| t.0) };
                    if skip < avail {
                        let want = if kind == 0 { lo + skip } else { hi - 1 - skip };
                        chk!(r == Some(want as u8), "nth(k) / nth_back(k) yields the k-th remaining element from that end");
                        chk!(it.len() == avail - skip - 1, "len() is exact after nth / nth_back");
                    } else {
                        chk!(r.is_none(), "nth(k) / nth_back(k) is None when fewer than k+1 elements remain");
                        chk!(it.len() == 0, "an iterator exhausted by nth / nth_back has length 0");
                    }
                }
                2 => chk!(it.count() == avail, "count() is the number of elements not yet produced"),
                _ => chk!(it.last().map(|t| t.0) == if avail > 0 { Some((hi - 1) as u8) } else { None }, "last() is the last selected element not yet produced"),
            }
        }};
    }
    if mutable {
        body!(buf.range_mut(a..b));
    } else {
        body!(buf.range(a..b));
    }
    core::mem::forget(buf);
}
