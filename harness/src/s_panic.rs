//! C11, "must panic" half: under the documented panic condition the call never returns.
//!
//! Under Kani a Rust panic is a failed check followed by `assume(false)`, so the obligation
//! placed *after* the call can fail only if some execution returns normally.  The driver requires
//! for these harnesses: that obligation holds, at least one panic check inside the crate fails
//! (the documented panic is really there), and no failed check is a memory-safety check.
//! Natively (replay) the call runs under `catch_unwind` and additionally the buffer must be
//! unchanged after the panic (the solver-decided version of that half is E2's).

use crate::obs::observe_eq;
use crate::s_iter::SymRange;
use crate::src::Src;
use crate::state::{build, St};
use crate::*;

#[cfg(kani)]
fn expect_panic<F: FnOnce()>(f: F) {
    f();
    chk!(false, "the call returned although the documented panic condition holds");
}

#[cfg(not(kani))]
fn expect_panic<F: FnOnce()>(f: F) {
    let r = std::panic::catch_unwind(std::panic::AssertUnwindSafe(f));
    chk!(r.is_err(), "the call returned although the documented panic condition holds");
}

pub fn range_must_panic<const N: usize, const P: u32, S: Src>(s: &mut S) {
    let St { buf, m, len, .. } = build::<N, S>(s);
    let r = SymRange::any(s);
    s.assume(r.must_panic(len));
    let (a, b) = r.math(len);
    cov!(a > b && b <= len as u128, "range: start exceeds end");
    cov!(b > len as u128 && a <= b, "range: end exceeds the length");
    cov!(b > usize::MAX as u128, "range: Included(usize::MAX) end");
    cov!(a > usize::MAX as u128, "range: Excluded(usize::MAX) start");
    expect_panic(|| {
        let _ = buf.range(r);
    });
    observe_eq(&buf, &m);
    core::mem::forget(buf);
}

pub fn range_mut_must_panic<const N: usize, const P: u32, S: Src>(s: &mut S) {
    let St { mut buf, m, len, .. } = build::<N, S>(s);
    let r = SymRange::any(s);
    s.assume(r.must_panic(len));
    let (a, b) = r.math(len);
    cov!(a > b && b <= len as u128, "range_mut: start exceeds end");
    cov!(b > len as u128 && a <= b, "range_mut: end exceeds the length");
    expect_panic(|| {
        let _ = buf.range_mut(r);
    });
    observe_eq(&buf, &m);
    core::mem::forget(buf);
}

pub fn drain_must_panic<const N: usize, const P: u32, S: Src>(s: &mut S) {
    let St { mut buf, m, len, .. } = build::<N, S>(s);
    let r = SymRange::any(s);
    s.assume(r.must_panic(len));
    let (a, b) = r.math(len);
    cov!(a > b && b <= len as u128, "drain: start exceeds end");
    cov!(b > len as u128 && a <= b, "drain: end exceeds the length");
    expect_panic(|| {
        let d = buf.drain(r);
        core::mem::forget(d);
    });
    observe_eq(&buf, &m);
    core::mem::forget(buf);
}

pub fn swap_must_panic<const N: usize, const P: u32, S: Src>(s: &mut S) {
    let St { mut buf, m, len, .. } = build::<N, S>(s);
    let i = s.usize();
    let j = s.usize();
    s.assume(i >= len || j >= len);
    cov!(i >= len && j < len, "swap: first index out of bounds");
    cov!(i < len && j >= len, "swap: second index out of bounds");
    cov!(i == usize::MAX, "swap: index usize::MAX");
    expect_panic(|| buf.swap(i, j));
    observe_eq(&buf, &m);
    core::mem::forget(buf);
}

pub fn index_must_panic<const N: usize, const P: u32, S: Src>(s: &mut S) {
    let St { buf, m, len, .. } = build::<N, S>(s);
    let i = s.usize();
    s.assume(i >= len);
    cov!(i == len, "index: position len");
    cov!(i == usize::MAX, "index: position usize::MAX");
    expect_panic(|| {
        let _ = &buf[i];
    });
    observe_eq(&buf, &m);
    core::mem::forget(buf);
}

pub fn index_mut_must_panic<const N: usize, const P: u32, S: Src>(s: &mut S) {
    let St { mut buf, m, len, .. } = build::<N, S>(s);
    let i = s.usize();
    s.assume(i >= len);
    cov!(i == len, "index_mut: position len");
    expect_panic(|| {
        let _ = &mut buf[i];
    });
    observe_eq(&buf, &m);
    core::mem::forget(buf);
}

/// accessors with unconstrained arguments never panic (totality; the results are C07's)
pub fn total_accessors<const N: usize, const P: u32, S: Src>(s: &mut S) {
    let St { mut buf, len, .. } = build::<N, S>(s);
    let p = s.usize();
    cov!(p > len, "accessor argument out of range");
    let _ = buf.get(p);
    let _ = buf.get_mut(p);
    let _ = buf.nth_front(p);
    let _ = buf.nth_front_mut(p);
    let _ = buf.nth_back(p);
    let _ = buf.nth_back_mut(p);
    let _ = buf.front();
    let _ = buf.front_mut();
    let _ = buf.back();
    let _ = buf.back_mut();
    let _ = buf.as_slices();
    let _ = buf.as_mut_slices();
    let _ = buf.len();
    let _ = buf.capacity();
    let _ = buf.is_empty();
    let _ = buf.is_full();
    let _ = buf.iter().len();
    let _ = buf.iter_mut().len();
    core::mem::forget(buf);
}
