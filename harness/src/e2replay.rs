//! Native side of E2 (DESIGN §2.2.5, §2.3): runs one operation on the real crate with real
//! unwinding — a panicking destructor / clone / closure / iterator / comparison at a chosen
//! event — from a state rebuilt through the public API, and reports what happened.
//!
//! Used (a) to replay a counterexample of the MIR→C engine before it is reported, and (b) as the
//! reference in the differential self-test of the translation (same cases through the
//! gcc-compiled translation and through this runner must print identical lines).
//!
//! Id conventions are those of mir2c/rt_models.h: contents `0..size`, caller-owned sources
//! `16+i`, second buffer `48+i`, objects created during the operation (clones, closure and
//! iterator results) `64, 65, ..` in creation order.
#![cfg(not(kani))]

use circular_buffer::CircularBuffer;
use std::cell::RefCell;
use std::panic::{catch_unwind, AssertUnwindSafe};

pub const F_NONE: usize = 0;
pub const F_DROP: usize = 1;
pub const F_CLONE: usize = 2;
pub const F_CALL: usize = 3;
pub const F_NEXT: usize = 4;
pub const F_EQ: usize = 5;
pub const FRESH0: u8 = 64;

struct World {
    drops: [u32; 256],
    created: [bool; 256],
    ev: [u32; 6],
    fault_kind: usize,
    fault_at: u32,
    fresh: u8,
    bad_read: bool,
    order: Vec<u8>,
}

thread_local! {
    static W: RefCell<World> = RefCell::new(World { drops: [0; 256], created: [false; 256], ev: [0; 6], fault_kind: 0, fault_at: 0, fresh: FRESH0, bad_read: false, order: Vec::new() });
}

fn fault(kind: usize) -> bool {
    W.with(|w| {
        let mut w = w.borrow_mut();
        let n = w.ev[kind];
        w.ev[kind] += 1;
        w.fault_kind == kind && n == w.fault_at
    })
}
fn fresh() -> FTok {
    W.with(|w| {
        let mut w = w.borrow_mut();
        let id = w.fresh;
        w.fresh += 1;
        w.created[id as usize] = true;
        FTok(id)
    })
}
fn mk(id: u8) -> FTok {
    W.with(|w| w.borrow_mut().created[id as usize] = true);
    FTok(id)
}

pub struct FTok(pub u8);
impl Drop for FTok {
    fn drop(&mut self) {
        W.with(|w| {
            let mut w = w.borrow_mut();
            w.drops[self.0 as usize] += 1;
            w.order.push(self.0);
        });
        if fault(F_DROP) {
            panic!("injected destructor panic");
        }
    }
}
impl Clone for FTok {
    fn clone(&self) -> Self {
        W.with(|w| {
            let mut w = w.borrow_mut();
            if !w.created[self.0 as usize] || w.drops[self.0 as usize] != 0 {
                w.bad_read = true;
            }
        });
        if fault(F_CLONE) {
            panic!("injected clone panic");
        }
        fresh()
    }
}
impl PartialEq for FTok {
    fn eq(&self, o: &FTok) -> bool {
        if fault(F_EQ) {
            panic!("injected eq panic");
        }
        // contents of the two buffers correspond position-wise: i  <->  48+i
        (self.0 & 15) == (o.0 & 15)
    }
}

struct FIter {
    remaining: usize,
}
impl Iterator for FIter {
    type Item = FTok;
    fn next(&mut self) -> Option<FTok> {
        if fault(F_NEXT) {
            panic!("injected iterator panic");
        }
        if self.remaining == 0 {
            return None;
        }
        self.remaining -= 1;
        Some(fresh())
    }
}

#[derive(Default, Debug, Clone)]
pub struct Case {
    pub op: String,
    pub n: usize,
    pub m: usize,
    pub start: usize,
    pub size: usize,
    pub a: usize,
    pub b: usize,
    pub start2: usize,
    pub size2: usize,
    pub kind: usize,
    pub at: u32,
}

#[derive(Default, Debug)]
pub struct Outcome {
    pub panicked: bool,
    pub len: usize,
    pub ids: Vec<u8>,
    pub drops_after_op: Vec<(u8, u32)>,
    pub drops_final: Vec<(u8, u32)>,
    pub violations: Vec<String>,
    pub ret: i64,
    pub order: Vec<u8>,
    /// the call panicked under its documented condition (swap / index / range with bad arguments):
    /// such a panic is the specified behaviour, not an unexplained one
    pub documented_panic: bool,
}

fn build<const N: usize>(start: usize, size: usize, base: u8) -> CircularBuffer<N, FTok> {
    let mut b = CircularBuffer::<N, FTok>::new();
    for _ in 0..start {
        b.push_back(FTok(255));
        std::mem::forget(b.pop_front());
    }
    for i in 0..size {
        std::mem::forget(b.push_back(mk(base + i as u8)));
    }
    b
}

fn snapshot() -> Vec<(u8, u32)> {
    W.with(|w| {
        let w = w.borrow();
        (0..256).filter(|i| w.drops[*i] > 0).map(|i| (i as u8, w.drops[i])).collect()
    })
}

fn reset(kind: usize, at: u32) {
    W.with(|w| {
        let mut w = w.borrow_mut();
        w.drops = [0; 256];
        w.created = [false; 256];
        w.ev = [0; 6];
        w.fault_kind = kind;
        w.fault_at = at;
        w.fresh = FRESH0;
        w.bad_read = false;
        w.order.clear();
    });
}
fn disarm() {
    W.with(|w| w.borrow_mut().fault_kind = F_NONE);
}

/// the post-conditions of C05 / C06 / C11, checked natively
fn judge<const N: usize>(c: &Case, out: &mut Outcome, b: Option<CircularBuffer<N, FTok>>, caller_owned: &[u8], leak_free: bool) {
    out.drops_after_op = snapshot();
    if let Some(b) = b {
        out.len = b.len();
        out.ids = b.iter().map(|t| t.0).collect();
        if out.len > N {
            out.violations.push(format!("len {} > N", out.len));
        }
        W.with(|w| {
            let w = w.borrow();
            for (i, id) in out.ids.iter().enumerate() {
                if !w.created[*id as usize] || w.drops[*id as usize] != 0 {
                    out.violations.push(format!("visible element {} (position {}) is not live", id, i));
                }
                if out.ids.iter().filter(|x| *x == id).count() != 1 {
                    out.violations.push(format!("visible element {} is duplicated", id));
                }
                if caller_owned.contains(id) {
                    out.violations.push(format!("visible element {} is also owned by the caller", id));
                }
            }
        });
        let r = catch_unwind(AssertUnwindSafe(move || drop(b)));
        if r.is_err() {
            out.violations.push("final drop panicked".into());
        }
    }
    out.drops_final = snapshot();
    out.order = W.with(|w| w.borrow().order.clone());
    W.with(|w| {
        let w = w.borrow();
        for i in 0..256usize {
            if w.drops[i] > 1 {
                out.violations.push(format!("element {} destroyed {} times", i, w.drops[i]));
            }
            if w.drops[i] > 0 && !w.created[i] {
                out.violations.push(format!("destructor ran on {} which never existed", i));
            }
            if w.drops[i] > 0 && caller_owned.contains(&(i as u8)) {
                out.violations.push(format!("caller-owned element {} destroyed", i));
            }
            if leak_free && w.created[i] && w.drops[i] == 0 && !caller_owned.contains(&(i as u8)) {
                out.violations.push(format!("element {} leaked (created, never destroyed)", i));
            }
        }
        if w.bad_read {
            out.violations.push("clone taken from a slot that holds no live element".into());
        }
    });
    if out.panicked && c.kind == F_NONE && !out.documented_panic {
        out.violations.push("panic without an injected fault".into());
    }
}

fn run_n<const N: usize>(c: &Case) -> Outcome {
    let mut out = Outcome::default();
    reset(F_NONE, 0);
    let mut b = build::<N>(c.start, c.size, 0);
    let src: Vec<FTok> = (0..2 * N + 2).map(|i| mk(16 + i as u8)).collect();
    let mut owned: Vec<u8> = src.iter().map(|t| t.0).collect();
    // everything created so far stays registered; only the fault and the counters are armed now
    W.with(|w| {
        let mut w = w.borrow_mut();
        w.ev = [0; 6];
        w.fault_kind = c.kind;
        w.fault_at = c.at;
    });
    // "nothing leaked" is demanded for user-code faults and for fault-free runs; a panicking
    // destructor may leak (C05)
    let leak_free = c.kind != F_DROP;
    let op = c.op.as_str();
    match op {
        "truncate_back" | "truncate_front" | "clear" | "fill" | "fill_spare" | "fill_with" | "fill_spare_with"
        | "extend_from_slice" | "extend" | "swap" | "index" | "index_mut" | "range" | "range_mut" | "drain_new" => {
            let before: Vec<u8> = b.iter().map(|t| t.0).collect();
            let r = catch_unwind(AssertUnwindSafe(|| match op {
                "truncate_back" => b.truncate_back(c.a),
                "truncate_front" => b.truncate_front(c.a),
                "clear" => b.clear(),
                "fill" => b.fill(mk(32)),
                "fill_spare" => b.fill_spare(mk(32)),
                "fill_with" => b.fill_with(|| {
                    if fault(F_CALL) {
                        panic!("injected closure panic")
                    }
                    fresh()
                }),
                "fill_spare_with" => b.fill_spare_with(|| {
                    if fault(F_CALL) {
                        panic!("injected closure panic")
                    }
                    fresh()
                }),
                "extend_from_slice" => b.extend_from_slice(&src[..c.a.min(src.len())]),
                "extend" => b.extend(FIter { remaining: c.a }),
                "swap" => b.swap(c.a, c.b),
                "index" => {
                    let _ = &b[c.a];
                }
                "index_mut" => {
                    let _ = &mut b[c.a];
                }
                "range" => {
                    let _ = b.range(c.a..c.b);
                }
                "range_mut" => {
                    let _ = b.range_mut(c.a..c.b);
                }
                "drain_new" => {
                    let d = b.drain(c.a..c.b);
                    std::mem::forget(d);
                }
                _ => unreachable!(),
            }));
            out.panicked = r.is_err();
            disarm();
            if matches!(op, "swap" | "index" | "index_mut" | "range" | "range_mut" | "drain_new") {
                let must = match op {
                    "swap" => c.a >= c.size || c.b >= c.size,
                    "index" | "index_mut" => c.a >= c.size,
                    _ => c.a > c.b || c.b > c.size,
                };
                if must != out.panicked {
                    out.violations.push(format!("{}: panicked={} but the documented condition says {}", op, out.panicked, must));
                }
                out.documented_panic = must && out.panicked;
            }
            if matches!(op, "swap" | "index" | "index_mut" | "range" | "range_mut" | "drain_new") && out.panicked {
                let after: Vec<u8> = b.iter().map(|t| t.0).collect();
                if after != before {
                    out.violations.push(format!("buffer changed by a call that panicked: {:?} -> {:?}", before, after));
                }
            }
            judge(c, &mut out, Some(b), &owned, leak_free && op != "drain_new");
        }
        "drop" => {
            let r = catch_unwind(AssertUnwindSafe(move || drop(b)));
            out.panicked = r.is_err();
            disarm();
            judge::<N>(c, &mut out, None, &owned, leak_free);
        }
        "into_iter_drop" => {
            let mut it = b.into_iter();
            for _ in 0..c.a {
                if let Some(t) = it.next() {
                    owned.push(t.0);
                    std::mem::forget(t);
                }
            }
            for _ in 0..c.b {
                if let Some(t) = it.next_back() {
                    owned.push(t.0);
                    std::mem::forget(t);
                }
            }
            let r = catch_unwind(AssertUnwindSafe(move || drop(it)));
            out.panicked = r.is_err();
            disarm();
            judge::<N>(c, &mut out, None, &owned, leak_free);
        }
        "drain_drop" => {
            // drain(a..b), start2 reads from the front, size2 reads from the back, then drop
            let r = {
                let mut d = b.drain(c.a..c.b);
                for _ in 0..c.start2 {
                    if let Some(t) = d.next() {
                        owned.push(t.0);
                        std::mem::forget(t);
                    }
                }
                for _ in 0..c.size2 {
                    if let Some(t) = d.next_back() {
                        owned.push(t.0);
                        std::mem::forget(t);
                    }
                }
                catch_unwind(AssertUnwindSafe(move || drop(d)))
            };
            out.panicked = r.is_err();
            disarm();
            judge(c, &mut out, Some(b), &owned, leak_free);
        }
        "from_iter" => {
            let r = catch_unwind(AssertUnwindSafe(|| FIter { remaining: c.a }.collect::<CircularBuffer<N, FTok>>()));
            out.panicked = r.is_err();
            disarm();
            std::mem::forget(b);
            owned.extend(0..c.size as u8);
            judge(c, &mut out, r.ok(), &owned, leak_free);
        }
        "clone" => {
            let r = catch_unwind(AssertUnwindSafe(|| b.clone()));
            out.panicked = r.is_err();
            disarm();
            let src_ids: Vec<u8> = b.iter().map(|t| t.0).collect();
            if src_ids != (0..c.size as u8).collect::<Vec<_>>() {
                out.violations.push("clone() changed its source".into());
            }
            std::mem::forget(b);
            owned.extend(0..c.size as u8);
            judge(c, &mut out, r.ok(), &owned, leak_free);
        }
        "clone_from" => {
            let o = build::<N>(c.start2, c.size2, 48);
            W.with(|w| w.borrow_mut().ev = [0; 6]);
            let r = catch_unwind(AssertUnwindSafe(|| b.clone_from(&o)));
            out.panicked = r.is_err();
            disarm();
            let o_ids: Vec<u8> = o.iter().map(|t| t.0).collect();
            if o_ids != (0..c.size2 as u8).map(|i| 48 + i).collect::<Vec<_>>() {
                out.violations.push("clone_from() changed its source".into());
            }
            std::mem::forget(o);
            owned.extend((0..c.size2 as u8).map(|i| 48 + i));
            judge(c, &mut out, Some(b), &owned, leak_free);
        }
        "eq" => {
            let o = build::<N>(c.start2, c.size2, 48);
            W.with(|w| w.borrow_mut().ev = [0; 6]);
            let r = catch_unwind(AssertUnwindSafe(|| b == o));
            out.panicked = r.is_err();
            out.ret = match r {
                Ok(x) => x as i64,
                Err(_) => -1,
            };
            disarm();
            let o_ids: Vec<u8> = o.iter().map(|t| t.0).collect();
            if o_ids != (0..c.size2 as u8).map(|i| 48 + i).collect::<Vec<_>>() || o.len() != c.size2 {
                out.violations.push("eq changed its right operand".into());
            }
            let b_ids: Vec<u8> = b.iter().map(|t| t.0).collect();
            if b_ids != (0..c.size as u8).collect::<Vec<_>>() {
                out.violations.push("eq changed its left operand".into());
            }
            std::mem::forget(o);
            owned.extend((0..c.size2 as u8).map(|i| 48 + i));
            judge(c, &mut out, Some(b), &owned, leak_free);
        }
        _ => {
            out.violations.push(format!("unknown op {}", op));
            std::mem::forget(b);
        }
    }
    std::mem::forget(src);
    out
}

fn run_from_array<const N: usize, const M: usize>(c: &Case) -> Outcome {
    let mut out = Outcome::default();
    reset(c.kind, c.at);
    let mut k = 0u8;
    let arr: [FTok; M] = core::array::from_fn(|_| {
        let t = mk(16 + k);
        k += 1;
        t
    });
    let r = catch_unwind(AssertUnwindSafe(move || CircularBuffer::<N, FTok>::from(arr)));
    out.panicked = r.is_err();
    disarm();
    // leaks are allowed when a destructor panicked
    judge(c, &mut out, r.ok(), &[], c.kind != F_DROP);
    out
}

macro_rules! disp_n {
    ($c:expr, $($n:literal),*) => {
        match $c.n { $($n => Some(run_n::<$n>($c)),)* _ => None }
    };
}
macro_rules! disp_nm {
    ($c:expr, $(($n:literal, $m:literal)),*) => {
        match ($c.n, $c.m) { $(($n, $m) => Some(run_from_array::<$n, $m>($c)),)* _ => None }
    };
}

pub fn run(c: &Case) -> Option<Outcome> {
    if c.op == "from_array" {
        return disp_nm!(c, (0, 0), (0, 1), (0, 2), (1, 0), (1, 1), (1, 2), (1, 3), (2, 0), (2, 1), (2, 2), (2, 3), (2, 4), (2, 5),
            (3, 0), (3, 1), (3, 2), (3, 3), (3, 4), (3, 5), (3, 6), (3, 7), (4, 0), (4, 1), (4, 2), (4, 3), (4, 4), (4, 5), (4, 6),
            (4, 7), (4, 8), (4, 9), (5, 3), (5, 5), (5, 7), (5, 11));
    }
    disp_n!(c, 0, 1, 2, 3, 4, 5, 6)
}

pub fn line(c: &Case, o: &Outcome) -> String {
    let ids: Vec<String> = o.ids.iter().map(|x| x.to_string()).collect();
    let d1: Vec<String> = o.drops_after_op.iter().map(|(i, n)| format!("{}:{}", i, n)).collect();
    let d2: Vec<String> = o.drops_final.iter().map(|(i, n)| format!("{}:{}", i, n)).collect();
    let ord: Vec<String> = o.order.iter().take(64).map(|x| x.to_string()).collect();
    format!(
        "{} N={} M={} start={} size={} a={} b={} start2={} size2={} fault={}@{} -> panicked={} len={} ids=[{}] drops=[{}] final=[{}] order=[{}]",
        c.op, c.n, c.m, c.start, c.size, c.a, c.b, c.start2, c.size2, c.kind, c.at, o.panicked as u8, o.len,
        ids.join(","), d1.join(","), d2.join(","), ord.join(",")
    )
}

pub fn parse_case(args: &[String]) -> Case {
    let mut c = Case::default();
    for a in args {
        if let Some((k, v)) = a.split_once('=') {
            let n = || v.parse::<usize>().unwrap_or(0);
            match k {
                "op" => c.op = v.to_string(),
                "N" => c.n = n(),
                "M" => c.m = n(),
                "start" => c.start = n(),
                "size" => c.size = n(),
                "a" => c.a = n(),
                "b" => c.b = n(),
                "start2" => c.start2 = n(),
                "size2" => c.size2 = n(),
                "kind" => c.kind = n(),
                "at" => c.at = n() as u32,
                _ => {}
            }
        }
    }
    c
}

/// `replay e2 op=.. N=.. ...`: exit 0 = post-conditions hold natively, 1 = violated
pub fn main_one(args: &[String]) -> i32 {
    std::panic::set_hook(Box::new(|_| {}));
    let c = parse_case(args);
    match run(&c) {
        None => {
            eprintln!("unsupported case {:?}", c);
            5
        }
        Some(o) => {
            println!("E2REPLAY {}", line(&c, &o));
            for v in &o.violations {
                println!("E2VIOLATION {}", v);
            }
            if o.violations.is_empty() {
                0
            } else {
                1
            }
        }
    }
}

/// `replay e2-sweep N`: print one line per case of the self-test case space (DESIGN §2.2.5a)
pub fn main_sweep(args: &[String]) -> i32 {
    std::panic::set_hook(Box::new(|_| {}));
    let n: usize = args.get(0).and_then(|x| x.parse().ok()).unwrap_or(3);
    for c in sweep_cases(n) {
        if let Some(o) = run(&c) {
            println!("{}", line(&c, &o));
        }
    }
    0
}

/// `replay e2-judge N [kinds]`: run the whole case space natively and report every case whose post-conditions
/// fail (used when the solver path is undecided because the translator met a construct it does not know)
pub fn main_judge(args: &[String]) -> i32 {
    std::panic::set_hook(Box::new(|_| {}));
    let n: usize = args.get(0).and_then(|x| x.parse().ok()).unwrap_or(3);
    let kinds: Vec<usize> = args.get(1).map(|k| k.split(',').filter_map(|x| x.parse().ok()).collect()).unwrap_or_default();
    let mut bad = 0;
    for c in sweep_cases(n) {
        if !kinds.is_empty() && !kinds.contains(&c.kind) {
            continue;
        }
        if let Some(o) = run(&c) {
            if !o.violations.is_empty() {
                bad += 1;
                if bad <= 5 {
                    println!("E2JUDGE op={} N={} M={} start={} size={} a={} b={} start2={} size2={} kind={} at={} :: {}", c.op, c.n, c.m, c.start, c.size, c.a, c.b, c.start2, c.size2, c.kind, c.at, o.violations.join("; "));
                }
            }
        }
    }
    println!("E2JUDGE-DONE N={} failing_cases={}", n, bad);
    if bad > 0 {
        1
    } else {
        0
    }
}

pub fn sweep_cases(n: usize) -> Vec<Case> {
    let mut v = Vec::new();
    let faults: [(usize, u32); 13] = [(0, 0), (1, 0), (1, 1), (1, 2), (1, 3), (2, 0), (2, 1), (2, 2), (3, 0), (3, 1), (3, 2), (4, 0), (4, 2)];
    let starts: Vec<usize> = if n == 0 { vec![0] } else { (0..n).collect() };
    for op in ["truncate_back", "truncate_front", "clear", "fill", "fill_spare", "fill_with", "fill_spare_with", "extend_from_slice", "extend", "drop"] {
        for &start in &starts {
            for size in 0..=n {
                let args: Vec<usize> = match op {
                    "truncate_back" | "truncate_front" => (0..=n + 1).collect(),
                    "extend_from_slice" | "extend" => (0..=2 * n + 1).collect(),
                    _ => vec![0],
                };
                for a in args {
                    for (kind, at) in faults {
                        let relevant = match kind {
                            0 | 1 => true,
                            2 => matches!(op, "fill" | "fill_spare" | "extend_from_slice"),
                            3 => matches!(op, "fill_with" | "fill_spare_with"),
                            4 => matches!(op, "extend"),
                            _ => false,
                        };
                        if !relevant {
                            continue;
                        }
                        v.push(Case { op: op.into(), n, m: 0, start, size, a, b: 0, start2: 0, size2: 0, kind, at });
                    }
                }
            }
        }
    }
    // drain_drop: all ranges and consumption counts
    for &start in &starts {
        for size in 0..=n {
            for a in 0..=size {
                for b in a..=size {
                    for f in 0..=(b - a) {
                        for k in 0..=(b - a - f) {
                            for (kind, at) in [(0usize, 0u32), (1, 0), (1, 1), (1, 2)] {
                                v.push(Case { op: "drain_drop".into(), n, m: 0, start, size, a, b, start2: f, size2: k, kind, at });
                            }
                        }
                    }
                }
            }
        }
    }
    // clone_from
    for &start in &starts {
        for size in 0..=n {
            for &start2 in &starts {
                for size2 in 0..=n {
                    for (kind, at) in [(0usize, 0u32), (1, 0), (1, 1), (2, 0), (2, 1), (2, 2)] {
                        v.push(Case { op: "clone_from".into(), n, m: 0, start, size, a: 0, b: 0, start2, size2, kind, at });
                    }
                }
            }
        }
    }
    for &start in &starts {
        for size in 0..=n {
            for (kind, at) in [(0usize, 0u32), (2, 0), (2, 1), (2, 2)] {
                v.push(Case { op: "clone".into(), n, m: 0, start, size, a: 0, b: 0, start2: 0, size2: 0, kind, at });
            }
        }
    }
    for a in 0..=2 * n + 1 {
        for (kind, at) in [(0usize, 0u32), (4, 0), (4, 1), (4, 3), (1, 0), (1, 1)] {
            v.push(Case { op: "from_iter".into(), n, m: 0, start: 0, size: 0, a, b: 0, start2: 0, size2: 0, kind, at });
        }
    }
    for op in ["swap", "range", "range_mut", "drain_new"] {
        for &start in &starts {
            for size in 0..=n {
                for a in 0..=n + 1 {
                    for b in 0..=n + 1 {
                        v.push(Case { op: op.into(), n, m: 0, start, size, a, b, start2: 0, size2: 0, kind: 0, at: 0 });
                    }
                }
            }
        }
    }
    for &start in &starts {
        for size in 0..=n {
            for &start2 in &starts {
                for size2 in 0..=n {
                    for (kind, at) in [(0usize, 0u32), (5, 0), (5, 1), (5, 2)] {
                        v.push(Case { op: "eq".into(), n, m: 0, start, size, a: 0, b: 0, start2, size2, kind, at });
                    }
                }
            }
        }
    }
    for op in ["index", "index_mut"] {
        for &start in &starts {
            for size in 0..=n {
                for a in 0..=n + 1 {
                    v.push(Case { op: op.into(), n, m: 0, start, size, a, b: 0, start2: 0, size2: 0, kind: 0, at: 0 });
                }
            }
        }
    }
    v
}
