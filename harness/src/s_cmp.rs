//! C13: equality, ordering, hashing and Debug depend only on the logical contents.

use crate::model::{BModel, CAP};
use crate::src::Src;
use crate::state::{build_u8, BSt};
use crate::*;
use circular_buffer::CircularBuffer;
use core::cmp::Ordering;

fn model_eq(a: &BModel, b: &BModel) -> bool {
    if a.len != b.len {
        return false;
    }
    let mut i = 0;
    let mut same = true;
    while i < a.len {
        if a.a[i] != b.a[i] {
            same = false;
        }
        i += 1;
    }
    same
}

fn model_cmp(a: &BModel, b: &BModel) -> Ordering {
    let mut i = 0;
    while i < a.len && i < b.len {
        if a.a[i] < b.a[i] {
            return Ordering::Less;
        }
        if a.a[i] > b.a[i] {
            return Ordering::Greater;
        }
        i += 1;
    }
    if a.len < b.len {
        Ordering::Less
    } else if a.len > b.len {
        Ordering::Greater
    } else {
        Ordering::Equal
    }
}

/// buffer x buffer of capacities (N, M): `==`, `!=`, `partial_cmp` against the model sequences
pub fn eq_buffers<const N: usize, const M: usize, const P: u32, S: Src>(s: &mut S) {
    let BSt { buf: a, m: ma, rot: ra } = build_u8::<N, S>(s);
    let BSt { buf: b, m: mb, rot: rb } = build_u8::<M, S>(s);
    let (al, _) = a.as_slices();
    let (bl, _) = b.as_slices();
    let e = model_eq(&ma, &mb);
    cov!(e && ma.len > 1 && al.len() < bl.len() && ra + ma.len > N, "equal contents, first segment of the left buffer shorter, left wraps");
    cov!(e && ma.len > 1 && al.len() > bl.len() && rb + mb.len > M, "equal contents, first segment of the left buffer longer, right wraps");
    cov!(e && ma.len > 1 && al.len() == bl.len() && ra + ma.len > N, "equal contents, equal split, wrapped");
    cov!(!e && ma.len == mb.len && ma.len > 0, "same length, different contents");
    chk!((a == b) == e, "a == b exactly when the element sequences are equal");
    chk!((a != b) == !e, "a != b exactly when the element sequences differ");
    chk!((b == a) == e, "equality is symmetric");
    let c = model_cmp(&ma, &mb);
    chk!(a.partial_cmp(&b) == Some(c), "partial_cmp is the lexicographic order of the sequences");
    chk!((a < b) == (c == Ordering::Less), "a < b agrees with the lexicographic order");
}

/// Ord::cmp (same capacity) and reflexivity
pub fn ord_buffers<const N: usize, const P: u32, S: Src>(s: &mut S) {
    let BSt { buf: a, m: ma, .. } = build_u8::<N, S>(s);
    let BSt { buf: b, m: mb, .. } = build_u8::<N, S>(s);
    let c = model_cmp(&ma, &mb);
    cov!(c == Ordering::Less && ma.len > mb.len, "shorter sequence greater by content");
    cov!(c == Ordering::Equal && ma.len > 0, "equal non-empty sequences");
    chk!(a.cmp(&b) == c, "cmp is the lexicographic order of the sequences");
    chk!(b.cmp(&a) == c.reverse(), "cmp is antisymmetric");
    chk!(a.cmp(&a) == Ordering::Equal, "cmp is reflexive");
    chk!(a == a, "equality is reflexive");
}

/// comparison with slices, arrays and references to them
pub fn eq_slices<const N: usize, const K: usize, const P: u32, S: Src>(s: &mut S) {
    let BSt { buf: a, m: ma, rot } = build_u8::<N, S>(s);
    let mut arr = [0u8; K];
    let mut i = 0;
    while i < K {
        arr[i] = s.u8();
        i += 1;
    }
    let l = s.usize();
    s.assume(l <= K);
    // expected: same length and same elements
    let mut e_arr = ma.len == K;
    let mut e_sl = ma.len == l;
    let mut i = 0;
    while i < ma.len {
        if i < K && ma.a[i] != arr[i] {
            e_arr = false;
            if i < l {
                e_sl = false;
            }
        }
        i += 1;
    }
    cov!(e_arr && K > 1 && rot + ma.len > N, "equal to the array, wrapped");
    cov!(e_sl && l > 1 && rot + ma.len > N, "equal to the slice, wrapped");
    cov!(!e_sl && ma.len == l && l > 0, "same length as the slice, different contents");
    let mut arr2 = arr;
    chk!((a == arr) == e_arr, "buffer == [U; K] agrees with the sequences");
    chk!((a == &arr) == e_arr, "buffer == &[U; K] agrees with the sequences");
    chk!((a == &mut arr2) == e_arr, "buffer == &mut [U; K] agrees with the sequences");
    chk!((a == arr[..l]) == e_sl, "buffer == [U] agrees with the sequences");
    chk!((a == &arr[..l]) == e_sl, "buffer == &[U] agrees with the sequences");
    chk!((a == &mut arr2[..l]) == e_sl, "buffer == &mut [U] agrees with the sequences");
}

// ------------------------------------------------------------------ Hash

pub struct RecHasher {
    pub log: [u64; CAP + 2],
    pub n: usize,
}
impl RecHasher {
    pub fn new() -> Self {
        RecHasher { log: [0; CAP + 2], n: 0 }
    }
    fn push(&mut self, v: u64) {
        if self.n < CAP + 2 {
            self.log[self.n] = v;
        }
        self.n += 1;
    }
}
impl core::hash::Hasher for RecHasher {
    fn finish(&self) -> u64 {
        0
    }
    fn write(&mut self, bytes: &[u8]) {
        let mut i = 0;
        while i < bytes.len() {
            self.push(0x200 | bytes[i] as u64);
            i += 1;
        }
    }
    fn write_u8(&mut self, i: u8) {
        self.push(0x100 | i as u64)
    }
    fn write_usize(&mut self, i: usize) {
        self.push(0x1_0000_0000 | i as u64)
    }
}

/// the hash stream is a function of the element sequence only: two buffers of the same capacity
/// with equal contents but independent layouts feed the hasher identically
pub fn hash_layout<const N: usize, const P: u32, S: Src>(s: &mut S) {
    let BSt { buf: a, m: ma, rot: ra } = build_u8::<N, S>(s);
    let BSt { buf: b, m: mb, rot: rb } = build_u8::<N, S>(s);
    s.assume(model_eq(&ma, &mb));
    cov!(ra != rb && ma.len > 1 && ra + ma.len > N, "equal contents in different layouts, one wrapped");
    let mut ha = RecHasher::new();
    let mut hb = RecHasher::new();
    core::hash::Hash::hash(&a, &mut ha);
    core::hash::Hash::hash(&b, &mut hb);
    chk!(ha.n == hb.n, "equal buffers feed the hasher the same number of words");
    let mut i = 0;
    while i < ha.n && i < CAP + 2 {
        chk!(ha.log[i] == hb.log[i], "equal buffers feed the hasher the same words");
        i += 1;
    }
}

// ------------------------------------------------------------------ Debug

/// element whose Debug impl records (id, formatter flags) instead of printing
pub struct D(pub u8);

pub struct DbgLog {
    pub ids: [u8; CAP],
    pub flags: [u32; CAP],
    pub n: usize,
}
pub static mut DBG: DbgLog = DbgLog { ids: [0; CAP], flags: [0; CAP], n: 0 };

pub fn dbg_reset() {
    unsafe {
        DBG.n = 0;
    }
}
pub fn dbg_seen() -> &'static DbgLog {
    unsafe { &DBG }
}

fn flags_of(f: &core::fmt::Formatter<'_>) -> u32 {
    let mut x = 0u32;
    if f.alternate() {
        x |= 1;
    }
    if f.sign_plus() {
        x |= 2;
    }
    if f.sign_minus() {
        x |= 4;
    }
    if f.sign_aware_zero_pad() {
        x |= 8;
    }
    if let Some(w) = f.width() {
        x |= 0x100 | ((w as u32 & 0xff) << 16);
    }
    if let Some(p) = f.precision() {
        x |= 0x200 | ((p as u32 & 0xff) << 24);
    }
    x
}

impl core::fmt::Debug for D {
    fn fmt(&self, f: &mut core::fmt::Formatter<'_>) -> core::fmt::Result {
        unsafe {
            if DBG.n < CAP {
                DBG.ids[DBG.n] = self.0;
                DBG.flags[DBG.n] = flags_of(f);
            }
            DBG.n += 1;
        }
        Ok(())
    }
}

/// sink recording the punctuation the list formatter emits (as a rolling checksum + length)
pub struct Sink {
    pub bytes: usize,
    pub sum: u32,
}
impl Sink {
    pub fn new() -> Self {
        Sink { bytes: 0, sum: 0 }
    }
}
impl core::fmt::Write for Sink {
    fn write_str(&mut self, s: &str) -> core::fmt::Result {
        let b = s.as_bytes();
        let mut i = 0;
        while i < b.len() {
            self.sum = self.sum.wrapping_mul(31).wrapping_add(b[i] as u32);
            i += 1;
        }
        self.bytes += b.len();
        Ok(())
    }
}

macro_rules! debug_case {
    ($buf:expr, $slice:expr, $len:expr, $spec:literal) => {{
        use core::fmt::Write;
        dbg_reset();
        let mut s1 = Sink::new();
        let r1 = write!(s1, $spec, $buf);
        let n1 = dbg_seen().n;
        let mut ids1 = [0u8; CAP];
        let mut fl1 = [0u32; CAP];
        let mut i = 0;
        while i < n1 && i < CAP {
            ids1[i] = dbg_seen().ids[i];
            fl1[i] = dbg_seen().flags[i];
            i += 1;
        }
        dbg_reset();
        let mut s2 = Sink::new();
        let r2 = write!(s2, $spec, $slice);
        chk!(r1.is_ok() && r2.is_ok(), "Debug succeeds");
        chk!(n1 == $len, "Debug formats every element once");
        chk!(n1 == dbg_seen().n, "Debug formats as many elements as the equivalent slice");
        let mut i = 0;
        while i < n1 && i < CAP {
            chk!(ids1[i] == dbg_seen().ids[i], "Debug formats the elements of the equivalent slice, in order");
            chk!(fl1[i] == dbg_seen().flags[i], "Debug passes the same formatter flags to the elements as the slice does");
            i += 1;
        }
        chk!(s1.bytes == s2.bytes && s1.sum == s2.sum, "Debug emits the same punctuation as the equivalent slice");
    }};
}

/// Debug output is that of the equivalent slice, for a list of format specs
pub fn debug_fmt<const N: usize, const SPEC: usize, const P: u32, S: Src>(s: &mut S) {
    let mut buf = CircularBuffer::<N, D>::new();
    let rot = s.usize();
    s.assume(if N == 0 { rot == 0 } else { rot < N });
    let mut i = 0;
    while i < rot {
        buf.push_back(D(0xEE));
        buf.pop_front();
        i += 1;
    }
    let mut i = 0;
    while i < N {
        buf.push_back(D(s.u8()));
        i += 1;
    }
    let mut i = 0;
    while i < N {
        buf.pop_front();
        i += 1;
    }
    let len = s.usize();
    s.assume(len <= N);
    let mut arr = [0u8; CAP];
    let mut i = 0;
    while i < len {
        let v = s.u8();
        buf.push_back(D(v));
        arr[i] = v;
        i += 1;
    }
    cov!(rot + len > N && len > 1, "Debug of wrapped contents");
    // the equivalent slice
    let mut sl: [D; CAP] = [
        D(arr[0]), D(arr[1]), D(arr[2]), D(arr[3]), D(arr[4]), D(arr[5]), D(arr[6]), D(arr[7]),
        D(arr[8]), D(arr[9]), D(arr[10]), D(arr[11]), D(arr[12]), D(arr[13]), D(arr[14]), D(arr[15]),
    ];
    let slice = &mut sl[..len];
    match SPEC {
        0 => debug_case!(buf, slice, len, "{:?}"),
        1 => debug_case!(buf, slice, len, "{:5?}"),
        2 => debug_case!(buf, slice, len, "{:<8.3?}"),
        3 => debug_case!(buf, slice, len, "{:+010?}"),
        4 => debug_case!(buf, slice, len, "{:#?}"),
        _ => debug_case!(buf, slice, len, "{:+#010?}"),
    }
}
