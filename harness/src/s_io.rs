//! C14: byte-stream I/O through std::io.  C16: the same through embedded-io / embedded-io-async.
//!
//! One scenario body, instantiated per trait family through a small adapter trait, so that the
//! std impls and the embedded impls are compared with the *same* byte model (hence with each
//! other).

use crate::model::{BModel, CAP};
use crate::src::Src;
use crate::state::{build_u8, BSt};
use crate::*;
use circular_buffer::CircularBuffer;

/// the five operations, uniformly
pub trait Io {
    fn io_write(&mut self, src: &[u8]) -> Option<usize>;
    fn io_flush(&mut self) -> bool;
    fn io_read(&mut self, dst: &mut [u8]) -> Option<usize>;
    /// (length, first byte, last byte) of what fill_buf returns
    fn io_fill_buf(&mut self) -> Option<(usize, u8, u8)>;
    fn io_fill_buf_at(&mut self, i: usize) -> Option<u8>;
    fn io_consume(&mut self, k: usize);
}

pub struct StdIo<'a, const N: usize>(pub &'a mut CircularBuffer<N, u8>);

#[cfg(feature = "std")]
impl<'a, const N: usize> Io for StdIo<'a, N> {
    fn io_write(&mut self, src: &[u8]) -> Option<usize> {
        std::io::Write::write(self.0, src).ok()
    }
    fn io_flush(&mut self) -> bool {
        std::io::Write::flush(self.0).is_ok()
    }
    fn io_read(&mut self, dst: &mut [u8]) -> Option<usize> {
        std::io::Read::read(self.0, dst).ok()
    }
    fn io_fill_buf(&mut self) -> Option<(usize, u8, u8)> {
        match std::io::BufRead::fill_buf(self.0) {
            Ok(b) => Some((b.len(), if b.is_empty() { 0 } else { b[0] }, if b.is_empty() { 0 } else { b[b.len() - 1] })),
            Err(_) => None,
        }
    }
    fn io_fill_buf_at(&mut self, i: usize) -> Option<u8> {
        match std::io::BufRead::fill_buf(self.0) {
            Ok(b) => {
                if i < b.len() {
                    Some(b[i])
                } else {
                    None
                }
            }
            Err(_) => None,
        }
    }
    fn io_consume(&mut self, k: usize) {
        std::io::BufRead::consume(self.0, k)
    }
}

#[cfg(feature = "eio")]
pub struct EIo<'a, const N: usize>(pub &'a mut CircularBuffer<N, u8>);

#[cfg(feature = "eio")]
impl<'a, const N: usize> Io for EIo<'a, N> {
    fn io_write(&mut self, src: &[u8]) -> Option<usize> {
        match embedded_io::Write::write(self.0, src) {
            Ok(n) => Some(n),
            Err(e) => match e {},
        }
    }
    fn io_flush(&mut self) -> bool {
        match embedded_io::Write::flush(self.0) {
            Ok(()) => true,
            Err(e) => match e {},
        }
    }
    fn io_read(&mut self, dst: &mut [u8]) -> Option<usize> {
        match embedded_io::Read::read(self.0, dst) {
            Ok(n) => Some(n),
            Err(e) => match e {},
        }
    }
    fn io_fill_buf(&mut self) -> Option<(usize, u8, u8)> {
        match embedded_io::BufRead::fill_buf(self.0) {
            Ok(b) => Some((b.len(), if b.is_empty() { 0 } else { b[0] }, if b.is_empty() { 0 } else { b[b.len() - 1] })),
            Err(e) => match e {},
        }
    }
    fn io_fill_buf_at(&mut self, i: usize) -> Option<u8> {
        match embedded_io::BufRead::fill_buf(self.0) {
            Ok(b) => {
                if i < b.len() {
                    Some(b[i])
                } else {
                    None
                }
            }
            Err(e) => match e {},
        }
    }
    fn io_consume(&mut self, k: usize) {
        embedded_io::BufRead::consume(self.0, k)
    }
}

/// poll a future exactly once; it must complete immediately (C16: "never returning Pending")
#[cfg(feature = "eio-async")]
pub fn poll_once<F: core::future::Future>(f: F) -> Option<F::Output> {
    use core::task::{Context, Poll, Waker};
    let mut f = core::pin::pin!(f);
    let mut cx = Context::from_waker(Waker::noop());
    match f.as_mut().poll(&mut cx) {
        Poll::Ready(v) => Some(v),
        Poll::Pending => None,
    }
}

#[cfg(feature = "eio-async")]
pub struct AIo<'a, const N: usize>(pub &'a mut CircularBuffer<N, u8>);

#[cfg(feature = "eio-async")]
impl<'a, const N: usize> Io for AIo<'a, N> {
    fn io_write(&mut self, src: &[u8]) -> Option<usize> {
        match poll_once(embedded_io_async::Write::write(self.0, src)) {
            Some(Ok(n)) => Some(n),
            Some(Err(e)) => match e {},
            None => {
                chk!(false, "async write completes immediately (never Pending)");
                None
            }
        }
    }
    fn io_flush(&mut self) -> bool {
        match poll_once(embedded_io_async::Write::flush(self.0)) {
            Some(Ok(())) => true,
            Some(Err(e)) => match e {},
            None => {
                chk!(false, "async flush completes immediately (never Pending)");
                false
            }
        }
    }
    fn io_read(&mut self, dst: &mut [u8]) -> Option<usize> {
        match poll_once(embedded_io_async::Read::read(self.0, dst)) {
            Some(Ok(n)) => Some(n),
            Some(Err(e)) => match e {},
            None => {
                chk!(false, "async read completes immediately (never Pending)");
                None
            }
        }
    }
    fn io_fill_buf(&mut self) -> Option<(usize, u8, u8)> {
        match poll_once(embedded_io_async::BufRead::fill_buf(self.0)) {
            Some(Ok(b)) => Some((b.len(), if b.is_empty() { 0 } else { b[0] }, if b.is_empty() { 0 } else { b[b.len() - 1] })),
            Some(Err(e)) => match e {},
            None => {
                chk!(false, "async fill_buf completes immediately (never Pending)");
                None
            }
        }
    }
    fn io_fill_buf_at(&mut self, i: usize) -> Option<u8> {
        match poll_once(embedded_io_async::BufRead::fill_buf(self.0)) {
            Some(Ok(b)) => {
                if i < b.len() {
                    Some(b[i])
                } else {
                    None
                }
            }
            Some(Err(e)) => match e {},
            None => None,
        }
    }
    fn io_consume(&mut self, k: usize) {
        embedded_io_async::BufRead::consume(self.0, k)
    }
}

fn contents_eq<const N: usize>(b: &CircularBuffer<N, u8>, m: &BModel) {
    chk!(b.len() == m.len, "byte stream: buffered length as specified");
    let mut i = 0;
    while i <= N {
        match b.get(i) {
            Some(v) => chk!(i < m.len && *v == m.a[i], "byte stream: buffered bytes as specified"),
            None => chk!(i >= m.len, "byte stream: buffered bytes as specified (too short)"),
        }
        i += 1;
    }
}

/// one I/O step against the byte model
fn io_step<const N: usize, I: Io, S: Src>(io: &mut I, m: &mut BModel, s: &mut S, src: &[u8; CAP]) {
    let op = s.u8();
    s.assume(op < 5);
    match op {
        0 => {
            // write keeps the newest N bytes and always accepts everything
            let w = s.usize();
            s.assume(w <= 2 * N + 1 && w <= CAP);
            cov!(w > N, "write longer than the capacity");
            cov!(w > 0 && w + m.len > N && w < N, "write overwriting part of the contents");
            let r = io.io_write(&src[..w]);
            chk!(r == Some(w), "write accepts the whole input and reports its full length");
            let mut i = 0;
            while i < w {
                m.push_back(src[i]);
                i += 1;
            }
        }
        1 => {
            // read copies min(dst.len(), len) bytes from the front and removes exactly those
            let d = s.usize();
            s.assume(d <= N + 2);
            let mut dst = [0xA5u8; CAP];
            s.assume(d <= CAP);
            let r = io.io_read(&mut dst[..d]);
            let expect = if d < m.len { d } else { m.len };
            cov!(d > m.len, "read with a destination longer than the contents");
            cov!(d > 0 && d < m.len, "read of part of the contents");
            chk!(r == Some(expect), "read returns min(destination length, buffered length)");
            let mut i = 0;
            while i < N + 3 && i < CAP {
                if i < expect {
                    chk!(dst[i] == m.a[i], "read delivers the front bytes in order");
                } else {
                    chk!(dst[i] == 0xA5, "read leaves the rest of the destination untouched");
                }
                i += 1;
            }
            let mut i = 0;
            while i < expect {
                m.pop_front();
                i += 1;
            }
        }
        2 => {
            // fill_buf: a non-empty prefix of the contents whenever non-empty
            let r = io.io_fill_buf();
            match r {
                Some((n, first, last)) => {
                    chk!((n > 0) == (m.len > 0), "fill_buf is non-empty exactly when the buffer is non-empty");
                    chk!(n <= m.len, "fill_buf returns a prefix of the contents (length)");
                    if n > 0 {
                        chk!(first == m.a[0] && last == m.a[n - 1], "fill_buf returns a prefix of the contents (bytes)");
                    }
                    let i = s.usize();
                    let at = io.io_fill_buf_at(i);
                    chk!(at == if i < n { Some(m.a[i]) } else { None }, "fill_buf returns a prefix of the contents (every byte)");
                }
                None => chk!(false, "fill_buf never fails"),
            }
        }
        3 => {
            // consume(k) removes the first min(k, len) bytes
            let k = s.usize();
            cov!(k > m.len, "consume more than buffered");
            cov!(k > 0 && k < m.len, "consume part of the contents");
            io.io_consume(k);
            let n = if k < m.len { k } else { m.len };
            let mut i = 0;
            while i < n {
                m.pop_front();
                i += 1;
            }
        }
        _ => {
            chk!(io.io_flush(), "flush never fails");
        }
    }
}

fn src_bytes<const N: usize, S: Src>(s: &mut S) -> [u8; CAP] {
    let mut a = [0u8; CAP];
    let mut i = 0;
    while i < 2 * N + 1 && i < CAP {
        a[i] = s.u8();
        i += 1;
    }
    a
}

/// sequence of `STEPS` symbolic operations through the std::io traits
#[cfg(feature = "std")]
pub fn io_std<const N: usize, const STEPS: usize, const P: u32, S: Src>(s: &mut S) {
    let BSt { mut buf, mut m, rot } = build_u8::<N, S>(s);
    cov!(rot + m.len > N, "io on wrapped contents");
    let src = src_bytes::<N, S>(s);
    let mut k = 0;
    while k < STEPS {
        {
            let mut io = StdIo(&mut buf);
            io_step::<N, _, S>(&mut io, &mut m, s, &src);
        }
        contents_eq(&buf, &m);
        k += 1;
    }
}

#[cfg(feature = "eio")]
pub fn io_eio<const N: usize, const STEPS: usize, const P: u32, S: Src>(s: &mut S) {
    let BSt { mut buf, mut m, rot } = build_u8::<N, S>(s);
    cov!(rot + m.len > N, "io on wrapped contents");
    let src = src_bytes::<N, S>(s);
    let mut k = 0;
    while k < STEPS {
        {
            let mut io = EIo(&mut buf);
            io_step::<N, _, S>(&mut io, &mut m, s, &src);
        }
        contents_eq(&buf, &m);
        k += 1;
    }
}

#[cfg(feature = "eio-async")]
pub fn io_eio_async<const N: usize, const STEPS: usize, const P: u32, S: Src>(s: &mut S) {
    let BSt { mut buf, mut m, rot } = build_u8::<N, S>(s);
    cov!(rot + m.len > N, "io on wrapped contents");
    let src = src_bytes::<N, S>(s);
    let mut k = 0;
    while k < STEPS {
        {
            let mut io = AIo(&mut buf);
            io_step::<N, _, S>(&mut io, &mut m, s, &src);
        }
        contents_eq(&buf, &m);
        k += 1;
    }
}

/// pairwise: the same operation through the embedded trait and through std::io on twin buffers
/// gives the same count, the same bytes and the same buffer
#[cfg(all(feature = "std", feature = "eio"))]
pub fn io_pair_eio<const N: usize, const P: u32, S: Src>(s: &mut S) {
    let BSt { buf: mut a, m, .. } = build_u8::<N, S>(s);
    let mut b = CircularBuffer::<N, u8>::new();
    let rb = s.usize();
    s.assume(if N == 0 { rb == 0 } else { rb < N });
    let mut i = 0;
    while i < rb {
        b.push_back(0);
        b.pop_front();
        i += 1;
    }
    let mut i = 0;
    while i < m.len {
        b.push_back(m.a[i]);
        i += 1;
    }
    let src = src_bytes::<N, S>(s);
    let op = s.u8();
    s.assume(op < 4);
    let x = s.usize();
    match op {
        0 => {
            s.assume(x <= 2 * N + 1 && x <= CAP);
            let r1 = StdIo(&mut a).io_write(&src[..x]);
            let r2 = EIo(&mut b).io_write(&src[..x]);
            chk!(r1 == r2, "embedded write returns the same count as std::io write");
        }
        1 => {
            s.assume(x <= N + 2);
            let mut d1 = [0u8; CAP];
            let mut d2 = [0u8; CAP];
            let r1 = StdIo(&mut a).io_read(&mut d1[..x]);
            let r2 = EIo(&mut b).io_read(&mut d2[..x]);
            chk!(r1 == r2, "embedded read returns the same count as std::io read");
            let mut i = 0;
            while i < N + 3 && i < CAP {
                chk!(d1[i] == d2[i], "embedded read delivers the same bytes as std::io read");
                i += 1;
            }
        }
        2 => {
            StdIo(&mut a).io_consume(x);
            EIo(&mut b).io_consume(x);
        }
        _ => {
            let r1 = StdIo(&mut a).io_fill_buf_at(x);
            let r2 = EIo(&mut b).io_fill_buf_at(x);
            // the split may differ with the layout; compare what both must show: a common prefix
            if r1.is_some() && r2.is_some() {
                chk!(r1 == r2, "embedded fill_buf shows the same bytes as std::io fill_buf");
            }
        }
    }
    chk!(a == b, "the buffer is the same after the embedded and the std::io operation");
}
