//! Assertion / cover macros with a Kani and a native face.

/// Panic payload of a failed scenario assertion in a native run.
pub struct ScenarioFailure(pub &'static str);

#[cfg(not(kani))]
#[cold]
pub fn native_fail(msg: &'static str) -> ! {
    std::panic::panic_any(ScenarioFailure(msg))
}

/// `chk!(cond, "message")`: obligation of the scenario.
#[macro_export]
macro_rules! chk {
    ($c:expr, $m:literal) => {{
        #[cfg(kani)]
        kani::assert($c, $m);
        #[cfg(not(kani))]
        if !($c) {
            $crate::chk::native_fail($m)
        }
    }};
}

/// `cov!(cond, "message")`: vacuity witness; must be SATISFIED in every Kani run.
#[macro_export]
macro_rules! cov {
    ($c:expr, $m:literal) => {{
        #[cfg(kani)]
        kani::cover!($c, $m);
        #[cfg(not(kani))]
        {
            let _ = $c;
        }
    }};
}

/// `on!(P, C01 | C03)` — is one of these assertion groups active in this instantiation?
#[macro_export]
macro_rules! on {
    ($p:expr, $m:expr) => {
        ($p & ($m)) != 0
    };
}
