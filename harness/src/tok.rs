//! Identity tokens and the ownership ledger.
//!
//! `Tok(id)` is a 1-byte element with a destructor.  Objects made by the harness have distinct
//! ids below 0x80; `clone` returns `Tok(id | 0x80)`, so a clone is distinguishable from, and
//! traceable to, its source.  The ledger counts, per id, how many objects were made and how many
//! destructor runs happened.  Garbage tokens (`Tok::garbage`) are solver-chosen byte patterns
//! that are written into slots and then forgotten; they are *not* registered, so destroying or
//! cloning one is detected (for the byte values the solver is free to choose).
//!
//! One byte, not more: Kani 0.68 / CBMC 6.11 mis-model `ptr::copy` / `copy_nonoverlapping` with a
//! symbolic count for element sizes above one byte (a `[u16; 4]` copy of `n == 1` elements does
//! not deliver the source value; the same query with a constant count, or with `u8`, is right).
//! `remove` and `Drain::drop` use exactly that, so multi-byte tokens give false alarms
//! (DESIGN §2.1).

pub struct Tok(pub u8);

/// false in the `plain` build, where the token has no destructor and the ledger therefore sees no destructor runs:
/// obligations about destructor counts are skipped there (they are decided in the default build)
pub const TRACK: bool = cfg!(not(feature = "plain"));

pub struct Ledger {
    /// destructor runs per id
    pub drops: [u8; 256],
    /// objects made per id (registered by `Tok::new` / `clone`)
    pub created: [u8; 256],
    /// a destructor ran on an id that never existed (garbage slot destroyed)
    pub bad_drop: bool,
    /// `clone` was called on an id that never existed or is already destroyed
    pub bad_read: bool,
    pub drop_events: u32,
    pub clone_events: u32,
    /// ids in the order their destructors ran (first 32)
    pub order: [u8; 32],
}

pub static mut L: Ledger = Ledger {
    drops: [0; 256],
    created: [0; 256],
    bad_drop: false,
    bad_read: false,
    drop_events: 0,
    clone_events: 0,
    order: [0; 32],
};

pub fn ledger_reset() {
    unsafe {
        L.drops = [0; 256];
        L.created = [0; 256];
        L.bad_drop = false;
        L.bad_read = false;
        L.drop_events = 0;
        L.clone_events = 0;
    }
}

#[inline]
pub fn drops(id: u8) -> u8 {
    unsafe { L.drops[id as usize] }
}
#[inline]
pub fn created(id: u8) -> u8 {
    unsafe { L.created[id as usize] }
}
#[inline]
pub fn clone_events() -> u32 {
    unsafe { L.clone_events }
}
#[inline]
pub fn drop_events() -> u32 {
    unsafe { L.drop_events }
}
/// id whose destructor ran as the k-th destructor call since the last reset
#[inline]
pub fn dropped_at(k: usize) -> u8 {
    unsafe { L.order[k & 31] }
}
#[inline]
pub fn bad_drop() -> bool {
    unsafe { L.bad_drop }
}
#[inline]
pub fn bad_read() -> bool {
    unsafe { L.bad_read }
}

impl Tok {
    /// a registered object
    #[inline]
    pub fn new(id: u8) -> Tok {
        unsafe {
            if L.created[id as usize] < 250 {
                L.created[id as usize] += 1;
            }
        }
        Tok(id)
    }
    /// an unregistered byte pattern (for the garbage prefill)
    #[inline]
    pub fn garbage(id: u8) -> Tok {
        Tok(id)
    }
    #[inline]
    pub fn id(&self) -> u8 {
        self.0
    }
    /// give up ownership without running the destructor (the harness "holds" it)
    #[inline]
    pub fn hold(self) -> u8 {
        let id = self.0;
        core::mem::forget(self);
        id
    }
}

// With the `plain` feature the token has no destructor at all (`needs_drop::<Tok>()` is false, and it is still
// not `Copy`): the functional scenarios are re-run with it so that a fast path keyed on drop glue cannot hide.
#[cfg(not(feature = "plain"))]
impl Drop for Tok {
    #[inline]
    fn drop(&mut self) {
        unsafe {
            let i = self.0 as usize;
            if L.created[i] == 0 {
                L.bad_drop = true;
            }
            if L.drops[i] < 250 {
                L.drops[i] += 1;
            }
            if (L.drop_events as usize) < 32 {
                L.order[L.drop_events as usize] = self.0;
            }
            L.drop_events += 1;
        }
    }
}

impl Clone for Tok {
    #[inline]
    fn clone(&self) -> Tok {
        unsafe {
            let i = self.0 as usize;
            if L.created[i] == 0 || L.drops[i] >= L.created[i] {
                L.bad_read = true;
            }
            L.clone_events += 1;
            Tok::new(self.0 | 0x80)
        }
    }
}

/// Small list of ids (tokens the harness holds, ids it created, ...).
#[derive(Clone, Copy)]
pub struct Ids {
    pub a: [u8; Ids::CAP],
    pub n: usize,
}

impl Ids {
    pub const CAP: usize = 24;
    pub const fn new() -> Self {
        Ids { a: [0; Ids::CAP], n: 0 }
    }
    #[inline]
    pub fn push(&mut self, id: u8) {
        if self.n < Ids::CAP {
            self.a[self.n] = id;
        }
        self.n += 1;
    }
    /// take ownership of an optional token: remember its id, do not run its destructor
    #[inline]
    pub fn hold(&mut self, t: Option<Tok>) {
        if let Some(t) = t {
            self.push(t.hold());
        }
    }
    pub fn count(&self, id: u8) -> usize {
        let mut c = 0;
        let mut i = 0;
        while i < self.n && i < Ids::CAP {
            if self.a[i] == id {
                c += 1;
            }
            i += 1;
        }
        c
    }
}

/// Zero-sized element with a counting destructor (C19).
pub struct Z;
pub static mut ZDROPS: u64 = 0;
impl Drop for Z {
    #[inline]
    fn drop(&mut self) {
        unsafe {
            ZDROPS += 1;
        }
    }
}
impl Clone for Z {
    fn clone(&self) -> Z {
        Z
    }
}
/// `Debug` for `Z` writes nothing and counts the calls: how many elements a formatter visited
pub static mut ZFMTS: u64 = 0;
impl core::fmt::Debug for Z {
    fn fmt(&self, _f: &mut core::fmt::Formatter<'_>) -> core::fmt::Result {
        unsafe {
            ZFMTS += 1;
        }
        Ok(())
    }
}
pub fn zfmts() -> u64 {
    unsafe { ZFMTS }
}
pub fn zfmt_reset() {
    unsafe {
        ZFMTS = 0;
    }
}
pub fn zdrops() -> u64 {
    unsafe { ZDROPS }
}
pub fn zreset() {
    unsafe {
        ZDROPS = 0;
    }
}
