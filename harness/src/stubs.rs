//! Stubs used by some harnesses.  Each stub is part of the claim and is listed in the evidence.

/// Model of the contract of `core::slice::rotate::ptr_rotate(left, mid, right)`: the
/// `left + right` elements starting at `mid - left` are rotated so that the element at `mid`
/// becomes the first.  libcore's three rotation algorithms with symbolic lengths cost
/// 1000 s / 48 GB at N=4 (DESIGN §9); the crate's *use* of `rotate_left` stays the real code.
pub unsafe fn model_ptr_rotate<T>(left: usize, mid: *mut T, right: usize) {
    if left == 0 || right == 0 {
        return;
    }
    let base = mid.sub(left);
    let mut r = 0;
    while r < left {
        let tmp = base.read();
        let mut i = 0;
        while i + 1 < left + right {
            base.add(i).write(base.add(i + 1).read());
            i += 1;
        }
        base.add(left + right - 1).write(tmp);
        r += 1;
    }
}

/// Replacement for the global allocator entry points in the C17 harnesses.
pub unsafe fn no_alloc(_layout: core::alloc::Layout) -> *mut u8 {
    panic!("ALLOCATION")
}
pub unsafe fn no_realloc(_ptr: *mut u8, _layout: core::alloc::Layout, _new_size: usize) -> *mut u8 {
    panic!("ALLOCATION")
}
