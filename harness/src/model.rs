//! Reference model: the documented abstract sequence, implemented literally
//! (shift loops, evict-on-full).  Deliberately naive; this is the oracle, not the subject.
//!
//! An element is the id byte of the token expected at that position; a clone of `x` is
//! `x | 0x80` (see `tok.rs`).

use crate::tok::Tok;

pub const CAP: usize = 16;
pub type E = u8;

#[inline]
pub fn orig(id: u8) -> E {
    id
}
#[inline]
pub fn clone_of(id: u8) -> E {
    id | 0x80
}
/// does the real element `t` match the model element `e`?
#[inline]
pub fn matches(t: &Tok, e: E) -> bool {
    t.0 == e
}

#[derive(Clone, Copy)]
pub struct Model {
    pub a: [E; CAP],
    pub len: usize,
    pub cap: usize,
}

impl Model {
    pub fn new(cap: usize) -> Self {
        Model { a: [0; CAP], len: 0, cap }
    }
    /// contents `0, 1, .., len-1` (originals)
    pub fn iota(cap: usize, len: usize) -> Self {
        let mut m = Model::new(cap);
        let mut i = 0;
        while i < len {
            m.a[i] = i as E;
            i += 1;
        }
        m.len = len;
        m
    }
    pub fn is_full(&self) -> bool {
        self.len == self.cap
    }
    fn shift_left_from(&mut self, i: usize) {
        // remove position i
        let mut j = i;
        while j + 1 < self.len {
            self.a[j] = self.a[j + 1];
            j += 1;
        }
        self.len -= 1;
    }
    fn shift_right(&mut self) {
        // make room at position 0
        let mut j = self.len;
        while j > 0 {
            self.a[j] = self.a[j - 1];
            j -= 1;
        }
        self.len += 1;
    }
    /// returns the displaced element, if any
    pub fn push_back(&mut self, x: E) -> Option<E> {
        if self.cap == 0 {
            return Some(x);
        }
        let mut ev = None;
        if self.len == self.cap {
            ev = Some(self.a[0]);
            self.shift_left_from(0);
        }
        self.a[self.len] = x;
        self.len += 1;
        ev
    }
    pub fn push_front(&mut self, x: E) -> Option<E> {
        if self.cap == 0 {
            return Some(x);
        }
        let mut ev = None;
        if self.len == self.cap {
            ev = Some(self.a[self.len - 1]);
            self.len -= 1;
        }
        self.shift_right();
        self.a[0] = x;
        ev
    }
    pub fn pop_back(&mut self) -> Option<E> {
        if self.len == 0 {
            return None;
        }
        self.len -= 1;
        Some(self.a[self.len])
    }
    pub fn pop_front(&mut self) -> Option<E> {
        if self.len == 0 {
            return None;
        }
        let x = self.a[0];
        self.shift_left_from(0);
        Some(x)
    }
    pub fn remove(&mut self, i: usize) -> Option<E> {
        if i >= self.len {
            return None;
        }
        let x = self.a[i];
        self.shift_left_from(i);
        Some(x)
    }
    pub fn swap(&mut self, i: usize, j: usize) {
        let t = self.a[i];
        self.a[i] = self.a[j];
        self.a[j] = t;
    }
    pub fn swap_remove_back(&mut self, i: usize) -> Option<E> {
        if i >= self.len {
            return None;
        }
        let last = self.len - 1;
        self.swap(i, last);
        self.pop_back()
    }
    pub fn swap_remove_front(&mut self, i: usize) -> Option<E> {
        if i >= self.len {
            return None;
        }
        self.swap(i, 0);
        self.pop_front()
    }
    /// keep the first `n`
    pub fn truncate_back(&mut self, n: usize) {
        if n < self.len {
            self.len = n;
        }
    }
    /// keep the last `n`
    pub fn truncate_front(&mut self, n: usize) {
        while self.len > n {
            self.shift_left_from(0);
        }
    }
    pub fn clear(&mut self) {
        self.len = 0;
    }
    /// remove positions `a..b`
    pub fn remove_range(&mut self, a: usize, b: usize) {
        let mut k = a;
        while k < b {
            self.shift_left_from(a);
            k += 1;
        }
    }
    pub fn set(&mut self, i: usize, x: E) {
        self.a[i] = x;
    }
    pub fn contains(&self, x: E) -> bool {
        let mut i = 0;
        while i < self.len {
            if self.a[i] == x {
                return true;
            }
            i += 1;
        }
        false
    }
}

/// Byte model for `CircularBuffer<N, u8>` (C13, C14, C16).
#[derive(Clone, Copy)]
pub struct BModel {
    pub a: [u8; CAP],
    pub len: usize,
    pub cap: usize,
}

impl BModel {
    pub fn new(cap: usize) -> Self {
        BModel { a: [0; CAP], len: 0, cap }
    }
    pub fn push_back(&mut self, x: u8) {
        if self.cap == 0 {
            return;
        }
        if self.len == self.cap {
            let mut j = 0;
            while j + 1 < self.len {
                self.a[j] = self.a[j + 1];
                j += 1;
            }
            self.len -= 1;
        }
        self.a[self.len] = x;
        self.len += 1;
    }
    pub fn pop_front(&mut self) -> Option<u8> {
        if self.len == 0 {
            return None;
        }
        let x = self.a[0];
        let mut j = 0;
        while j + 1 < self.len {
            self.a[j] = self.a[j + 1];
            j += 1;
        }
        self.len -= 1;
        Some(x)
    }
}
