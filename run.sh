#!/bin/sh
# MANIFEST entry point:  ./run.sh <Cxx> quick|thorough   |   ./run.sh --replay <path>
cd "$(dirname "$0")" || exit 2
export CARGO_NET_OFFLINE=true
# a solver process that needs more than this is reported as undecided, never as a pass
ulimit -v 24000000 2>/dev/null
if [ "$1" = "--replay" ]; then
  exec python3 driver/verif.py replay "$2"
fi
exec python3 driver/verif.py check "$1" "${2:-quick}"
