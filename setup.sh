#!/bin/sh
# MANIFEST.setup_cmd: build what the checks need, offline, from files on disk only.
cd "$(dirname "$0")" || exit 2
export CARGO_NET_OFFLINE=true
mkdir -p build evidence replays
python3 driver/gen.py || exit 1
( cd harness && cargo build --offline --bin replay --target-dir ../build/native-default \
  && cargo build --offline --release --bin replay --target-dir ../build/native-default ) || exit 1
cbmc --version >/dev/null || exit 1
cargo kani --version >/dev/null || exit 1
echo "setup ok"
