// native side of the differential self-test: same cases as the gcc-compiled mir2c output
use circular_buffer::CircularBuffer;
use std::cell::Cell;
use std::panic::{catch_unwind, AssertUnwindSafe};
thread_local! {
    static DROPS: Cell<[u8; 64]> = Cell::new([0; 64]);
    static EV: Cell<[u32; 6]> = Cell::new([0; 6]);
    static FAULT: Cell<(usize, u32)> = Cell::new((0, 0));
    static FRESH: Cell<u8> = Cell::new(32);
}
fn fault(kind: usize) -> bool { let mut e = EV.get(); let n = e[kind]; e[kind] += 1; EV.set(e); let (k, at) = FAULT.get(); k == kind && n == at }
struct Tok(u8);
impl Drop for Tok { fn drop(&mut self) { let mut d = DROPS.get(); d[self.0 as usize & 63] += 1; DROPS.set(d); if fault(1) { panic!("drop fault") } } }
impl Clone for Tok { fn clone(&self) -> Self { if fault(2) { panic!("clone fault") } let f = FRESH.get(); FRESH.set(f + 1); Tok(f) } }
fn run<const N: usize>(op: &str, start: usize, size: usize, arg: usize, kind: usize, at: u32) {
    let mut b = CircularBuffer::<N, Tok>::new();
    for _ in 0..start { b.push_back(Tok(63)); std::mem::forget(b.pop_front()); }
    for i in 0..size { b.push_back(Tok(i as u8)); }
    DROPS.set([0; 64]); EV.set([0; 6]); FRESH.set(32); FAULT.set((kind, at));
    let src: Vec<Tok> = (0..2 * N + 1).map(|i| Tok(16 + i as u8)).collect();
    let r = catch_unwind(AssertUnwindSafe(|| match op {
        "truncate_back" => b.truncate_back(arg),
        "truncate_front" => b.truncate_front(arg),
        "extend_from_slice" => b.extend_from_slice(&src[..arg.min(2 * N + 1)]),
        "fill_with" => b.fill_with(|| { if fault(3) { panic!("call fault") } let f = FRESH.get(); FRESH.set(f + 1); Tok(f) }),
        _ => unreachable!(),
    }));
    FAULT.set((0, 0));
    let ids: Vec<String> = b.iter().map(|t| t.0.to_string()).collect();
    let d = DROPS.get();
    let drops: Vec<String> = (0..64).filter(|i| d[*i] > 0).map(|i| format!("{}:{}", i, d[i])).collect();
    println!("{} N={} start={} size={} arg={} fault={}@{} -> panicked={} len={} ids=[{}] drops=[{}]", op, N, start, size, arg, kind, at, r.is_err() as u8, b.len(), ids.join(","), drops.join(","));
    std::mem::forget(b); std::mem::forget(src);
}
fn main() {
    std::panic::set_hook(Box::new(|_| {}));
    for op in ["truncate_back", "truncate_front", "extend_from_slice", "fill_with"] {
        for start in 0..3usize { for size in 0..=3usize { for arg in 0..=7usize {
            if (op == "fill_with") && arg > 0 { continue; }
            for (kind, at) in [(0usize, 0u32), (1, 0), (1, 1), (1, 2), (2, 0), (2, 1), (2, 2), (3, 0), (3, 1), (3, 2)] {
                run::<3>(op, start, size, arg, kind, at);
            }
        } } }
    }
}
