#!/usr/bin/env python3
"""mir2c v1 (scratch): rustc `-Zunpretty=mir` text  ->  C with explicit unwind edges for CBMC.

usage: mir2c.py MIR.txt SRC_DIR OUT.c ROOT [ROOT...]
ROOT is matched structurally: "Type::method", "Trait for Type::method", or a free fn name.
"""
import re, sys, os

class Unsupported(Exception):
    pass

# =====================================================================  utilities
def split_top(s, sep=','):
    out, depth, cur, i = [], 0, '', 0
    while i < len(s):
        ch = s[i]
        if ch in '<([{': depth += 1
        elif ch in ')]}': depth -= 1
        elif ch == '>' and not (i > 0 and s[i-1] == '-'): depth -= 1
        if ch == sep and depth == 0:
            out.append(cur.strip()); cur = ''
        else:
            cur += ch
        i += 1
    if cur.strip(): out.append(cur.strip())
    return out

def strip_lifetimes(t):
    t = re.sub(r"::<'\w+>", '', t)          # ::<'_>
    t = re.sub(r"'\w+\s*,\s*", '', t)       # <'_, T>  -> <T>
    t = re.sub(r"<'\w+>", '', t)            # <'_>
    t = re.sub(r"'\w+\s+", '', t)           # &'a mut
    t = re.sub(r"&'\w+", '&', t)
    return t

def strip_turbofish(c):
    out, i = '', 0
    while i < len(c):
        if c.startswith('::<', i) and i > 0 and (c[i-1].isalnum() or c[i-1] in '_>') and not c.startswith('::<impl ', i):
            d, j = 0, i + 2
            while j < len(c):
                if c[j] == '<': d += 1
                elif c[j] == '>' and c[j-1] != '-':
                    d -= 1
                    if d == 0: break
                j += 1
            i = j + 1
            continue
        out += c[i]; i += 1
    return out

def split_call(t):
    """'dest = callee(args) -> targets'  ->  (dest, callee, args, targets)"""
    k = t.rfind(') -> ')
    if k < 0: return None
    head, targets = t[:k+1], t[k+5:]
    d, j = 0, len(head) - 1
    while j >= 0:
        if head[j] == ')': d += 1
        elif head[j] == '(':
            d -= 1
            if d == 0: break
        j -= 1
    pre, args = head[:j], head[j+1:-1]
    m = re.match(r'^(.*?) = (.*)$', pre, re.S)
    if not m: return None
    return m.group(1), m.group(2), args, targets

# =====================================================================  types
# AST: ('prim',n) ('tok',) ('ptr',inner) ('slice',inner) ('array',inner,len) ('tuple',[..])
#      ('adt',name,[args]) ('param',name) ('closure',id) ('opaque',text)
TOK_PARAMS = {'T', 'U'}
USER_PARAMS = {'R', 'F', 'I', 'H'}
OPAQUE_NAMES = {'Arguments', 'Argument', 'AssertKind', 'Formatter', 'str', 'Error', 'Vec', 'Box'}

def parse_type(t):
    t = strip_lifetimes(t.strip())
    if t in ('usize', 'isize', 'bool', 'u8', 'u32', 'u64', 'i8'): return ('prim', t)
    if t == '()': return ('prim', 'unit')
    if t == '!': return ('prim', 'unit')
    if t in TOK_PARAMS: return ('tok',)
    if t in USER_PARAMS: return ('param', t)
    if t.startswith('{closure@'): return ('closure', re.sub(r'\W+', '_', t))
    m = re.match(r'^(&mut |&|\*const |\*mut )(.*)$', t)
    if m: return ('ptr', parse_type(m.group(2)))
    if t.startswith('[') and t.endswith(']'):
        inner = t[1:-1]
        parts = split_top(inner, ';')
        if len(parts) == 2: return ('array', parse_type(parts[0]), parts[1].strip())
        return ('slice', parse_type(inner))
    if t.startswith('(') and t.endswith(')'):
        return ('tuple', [parse_type(x) for x in split_top(t[1:-1])])
    # nested local types
    if 'write_uninit_slice_cloned::Guard' in t: return ('adt', 'Guard', [])
    if 'drop_range::Dropper' in t: return ('adt', 'LibDropper', [])
    if re.search(r'drop::Dropper', t): return ('adt', 'DrainDropper', [])
    if re.match(r'^<I as (std::iter::)?IntoIterator>::IntoIter$', t): return ('param', 'I')
    if re.match(r'^(std::iter::)?Cloned<(iter::)?Iter<T>>$', t): return ('param', 'I')
    if t.startswith('<'): return ('opaque', t)
    # path<generics>
    m = re.match(r'^([\w:]+?)(<(.*)>)?$', t)
    if not m: return ('opaque', t)
    name = m.group(1).split('::')[-1]
    args = [parse_type(a) for a in split_top(m.group(3))] if m.group(3) else []
    args = [a for a in args if a != ('opaque', 'N') and a != ('opaque', 'M')]
    if name in OPAQUE_NAMES: return ('opaque', name)
    if name in ('N', 'M'): return ('opaque', name)
    if name in ('MaybeUninit', 'ManuallyDrop'): return ('nodrop', args[0])     # same layout, no drop glue
    if name == 'NonNull': return ('ptr', args[0])
    if name == 'PhantomData': return ('prim', 'unit')
    return ('adt', name, args)

def peel(t):
    """strip MaybeUninit/ManuallyDrop wrappers everywhere (layout view of a type)"""
    k = t[0]
    if k == 'nodrop': return peel(t[1])
    if k in ('ptr', 'slice'): return (k, peel(t[1]))
    if k == 'array': return (k, peel(t[1]), t[2])
    if k == 'tuple': return (k, [peel(x) for x in t[1]])
    if k == 'adt': return (k, t[1], [peel(x) for x in t[2]])
    if k == 'variant': return (k, peel(t[1]), t[2])
    return t

def is_fat(t):
    t = peel(t); return t[0] == 'ptr' and t[1][0] == 'slice'

def mangle(t):
    t = peel(t); k = t[0]
    if k == 'prim': return t[1]
    if k == 'tok': return 'tok'
    if k == 'ptr': return 'p' + mangle(t[1])
    if k == 'slice': return 's' + mangle(t[1])
    if k == 'array': return 'a%s_%s' % (t[2], mangle(t[1]))
    if k == 'tuple': return 't' + '_'.join(mangle(x) for x in t[1]) + 'e'
    if k == 'adt': return t[1] + ''.join('_' + mangle(a) for a in t[2])
    if k == 'param': return 'user' + t[1]
    if k == 'closure': return 'clo' + t[1][-12:]
    return 'opaque'

class CTypes:
    def __init__(s, structs):
        s.structs = structs            # name -> [(fname, type-ast)]
        s.defs = []                    # emitted typedef text, in order
        s.done = {}
    def clen(s, l):
        return {'N': 'NN', 'M': 'MM'}.get(l, l)
    def of(s, t):
        t = peel(t); k = t[0]
        if k == 'prim':
            return {'usize': 'size_t', 'isize': 'long', 'bool': '_Bool', 'u8': 'unsigned char', 'i8': 'unsigned char',   # i8: enum discriminants only (compared with 255 for -1)
                    
                    'u32': 'unsigned', 'u64': 'unsigned long', 'unit': 'unit_t'}[t[1]]
        if k == 'tok': return 'tok_t'
        if k == 'opaque': return 'opaque_t'
        if k == 'param': return 'user_%s_t' % t[1]
        if k == 'ptr':
            if is_fat(t):
                return s.define('fat_' + mangle(t[1][1]), lambda: 'struct { %s *ptr; size_t len; }' % s.of(t[1][1]))
            if t[1][0] == 'opaque': return 'opaque_t'
            return s.of(t[1]) + ' *'
        if k == 'array':
            n = s.clen(t[2])
            return s.define('arr_' + mangle(t), lambda: 'struct { %s a[(%s) ? (%s) : 1]; }' % (s.of(t[1]), n, n))
        if k == 'tuple':
            return s.define('tup_' + '_'.join(mangle(x) for x in t[1]), lambda: 'struct { %s }' % ' '.join('%s f%d;' % (s.of(x), i) for i, x in enumerate(t[1])))
        if k == 'closure':
            return s.define('clo_' + mangle(t), lambda: 'struct { void *f0; }')
        if k == 'adt':
            name = t[1]
            if name in ('Range', 'RangeTo', 'RangeFrom', 'RangeFull', 'RangeInclusive'): return name.lower() + '_t'
            if name in ('Option', 'Bound'):
                return s.define(name.lower() + '_' + mangle(t[2][0]), lambda: 'struct { long disc; %s v; }' % s.of(t[2][0]))
            if name == 'Result':
                # Result<(), E>: disc 0 = Ok(()), 1 = Err(v)
                return s.define('result_' + mangle(t[2][0]) + '_' + mangle(t[2][1]), lambda: 'struct { long disc; %s v; }' % s.of(t[2][1]))
            if name == 'ControlFlow':
                return s.define('cflow_' + mangle(t[2][1]), lambda: 'struct { long disc; %s v; }' % s.of(t[2][1]))
            if name == 'Ordering': return 'ordering_t'
            if name == 'Infallible': return 'unit_t'
            if name in s.structs:
                return s.define('st_' + name, lambda: 'struct { %s }' % ' '.join('%s f%d;' % (s.of(ft), i) for i, (fn, ft) in enumerate(s.structs[name])))
            return 'opaque_t'
        raise Unsupported('ctype ' + repr(t))
    def define(s, name, body):
        if name not in s.done:
            s.done[name] = None
            text = body()                     # may recursively define dependencies first
            s.defs.append('typedef %s %s;' % (text, name))
        return name

def parse_structs(srcdir):
    """struct definitions of the crate, from the real source (field order = MIR field index)"""
    out = {}
    for fn in ('lib.rs', 'drain.rs', 'iter.rs'):
        src = open(os.path.join(srcdir, fn)).read()
        src = re.sub(r'//[^\n]*', '', src)
        for m in re.finditer(r'struct (\w+)\s*(<[^{(;]*>)?\s*\{(.*?)\n\s*\}', src, re.S):
            name, body = m.group(1), m.group(3)
            fields = []
            for f in split_top(body):
                fm = re.match(r'^(?:pub(?:\([a-z]+\))?\s+)?(\w+)\s*:\s*(.*)$', f.strip(), re.S)
                if fm: fields.append((fm.group(1), parse_type(' '.join(fm.group(2).split()))))
            key = name
            if name == 'Dropper': key = 'LibDropper' if fn == 'lib.rs' else 'DrainDropper'
            out[key] = fields
        for m in re.finditer(r'struct (\w+)\s*(<[^{(;]*>)?\s*\((.*?)\);', src, re.S):
            name = m.group(1)
            key = name
            if name == 'Dropper': key = 'LibDropper' if fn == 'lib.rs' else 'DrainDropper'
            out[key] = [(str(i), parse_type(' '.join(f.split()))) for i, f in enumerate(split_top(m.group(3)))]
    return out

# =====================================================================  MIR parsing
class Fn:
    pass

def parse_mir(text):
    fns = []
    lines = text.split('\n')
    i = 0
    while i < len(lines):
        m = re.match(r'^fn (.*?)\((.*)\) -> (.*) \{$', lines[i])
        if not m:
            i += 1; continue
        f = Fn(); f.name = m.group(1); f.ret = m.group(3); f.args = []; f.locals = {}; f.blocks = {}; f.order = []
        for a in split_top(m.group(2)):
            am = re.match(r'^(_\d+): (.*)$', a, re.S)
            f.args.append(am.group(1)); f.locals[am.group(1)] = am.group(2)
        f.locals['_0'] = f.ret
        i += 1; cur = None
        while lines[i] != '}':
            ln = lines[i].strip()
            lm = re.match(r'^let (?:mut )?(_\d+): (.*);$', ln)
            bm = re.match(r'^(bb\d+)( \(cleanup\))?: \{$', ln)
            if lm: f.locals[lm.group(1)] = lm.group(2)
            elif bm:
                cur = bm.group(1); f.blocks[cur] = [bool(bm.group(2)), []]; f.order.append(cur)
            elif cur and ln == '}': cur = None
            elif cur and ln and not ln.startswith('//'):
                f.blocks[cur][1].append(ln[:-1] if ln.endswith(';') else ln)
            i += 1
        fns.append(f)
        i += 1
    return fns

# =====================================================================  structural names of MIR bodies
def impl_header(srcdir, span):
    m = re.match(r'^<impl at (.*?):(\d+):\d+: \d+:\d+>$', span)
    path, line = m.group(1), int(m.group(2))
    path = os.path.join(srcdir, os.path.basename(path))
    src = open(path).read().split('\n')
    hdr = ''
    for l in src[line-1:line+6]:
        hdr += ' ' + l.strip()
        if '{' in l: break
    hdr = strip_lifetimes(hdr.split('{')[0]).strip()
    hdr = re.sub(r'^impl\s*(<[^>]*(?:<[^>]*>[^>]*)*>)?\s*', '', hdr)
    hdr = re.sub(r'\s+where\b.*$', '', hdr)
    m = re.match(r'^(.*?) for (.*)$', hdr)
    trait, ty = (m.group(1).strip(), m.group(2).strip()) if m else (None, hdr.strip())
    base = lambda x: re.sub(r'<.*$', '', x).split('::')[-1]
    return (base(trait) if trait else None, base(ty), hdr)

def structural_name(srcdir, f):
    """e.g. 'CircularBuffer::truncate_back', 'Drop for Drain::drop', 'add_mod',
    'Drop for LibDropper::drop', 'Extend for CircularBuffer::extend::{closure#0}'"""
    parts = re.split(r'::(?=<impl at )|(?<=>)::', f.name)
    # find last impl span
    spans = list(re.finditer(r'<impl at [^>]*>', f.name))
    if not spans:
        return f.name.split('::')[-1] if '::' not in f.name or '{closure' not in f.name else f.name
    last = spans[-1]
    trait, ty, hdr = impl_header(srcdir, last.group(0))
    rest = f.name[last.end():].lstrip(':')
    if ty == 'Dropper': ty = 'LibDropper' if 'lib.rs' in last.group(0) else 'DrainDropper'
    if ty == 'Guard': ty = 'Guard'
    key = ('%s for %s' % (trait, ty)) if trait else ty
    # disambiguate generic trait impls by their header text (e.g. PartialEq<[U]>)
    return key + '::' + rest, hdr

# =====================================================================  translator
BINOPS = {'Eq': '==', 'Ne': '!=', 'Lt': '<', 'Le': '<=', 'Gt': '>', 'Ge': '>=', 'Rem': '%', 'Div': '/',
          'Add': '+', 'Sub': '-', 'Mul': '*', 'BitAnd': '&', 'BitOr': '|', 'BitXor': '^'}

class Translator:
    def __init__(s, mirtext, srcdir):
        s.srcdir = srcdir
        s.structs = parse_structs(srcdir)
        s.ct = CTypes(s.structs)
        s.fns = {}
        s.hdrs = {}
        for f in parse_mir(mirtext):
            sn = structural_name(srcdir, f)
            if isinstance(sn, tuple): sn, hdr = sn
            else: hdr = ''
            f.sname = sn; f.hdr = hdr
            s.fns.setdefault(sn, []).append(f)      # first body = runtime MIR
        s.needed = []
        s.emitted = {}
        s.protos = []
        s.unsupported = []

    # ---------------- naming
    def cname(s, f):
        idx = s.fns[f.sname].index(f)
        return 'mir_' + re.sub(r'\W+', '_', f.sname).strip('_') + ('' if idx == 0 else '_v%d' % idx)

    def lookup(s, sname, argtypes=None):
        c = s.fns.get(sname)
        if not c: return None
        c = [x for x in c]
        # several bodies: CTFE duplicates (identical signature) or trait impls for different types
        uniq = []
        for x in c:
            sig = (tuple(x.locals[a] for a in x.args), x.ret)
            if sig not in [u[0] for u in uniq]: uniq.append((sig, x))
        if len(uniq) == 1: return uniq[0][1]
        if argtypes:
            for sig, x in uniq:
                if [mangle(parse_type(t)) for t in sig[0]] == [mangle(t) for t in argtypes]: return x
        return uniq[0][1]

    # ---------------- places
    def ltype(s, f, l): return peel(parse_type(f.locals[l]))
    def ltype_raw(s, f, l): return parse_type(f.locals[l])

    def place(s, f, p):
        """returns (c_expr, type_ast).  For unsized slice places c_expr is the fat pointer value."""
        p = p.strip()
        if re.match(r'^_\d+$', p): return p, s.ltype(f, p)
        # index:  base[_n]
        m = re.match(r'^(.*)\[(_\d+)\]$', p)
        if m and s.balanced(m.group(1)):
            b, bt = s.place(f, m.group(1))
            if bt[0] == 'slice': return '%s.ptr[%s]' % (b, m.group(2)), bt[1]
            if bt[0] == 'array': return '%s.a[%s]' % (b, m.group(2)), bt[1]
            raise Unsupported('index into ' + repr(bt))
        if p.startswith('(') and p.endswith(')') and s.balanced(p[1:-1]):
            inner = p[1:-1].strip()
            if inner.startswith('*'):
                b, bt = s.place(f, inner[1:])
                if bt[0] != 'ptr': raise Unsupported('deref of non-pointer ' + p)
                if bt[1][0] == 'slice': return b, bt[1]           # unsized place: keep the fat value
                return '(*%s)' % b, bt[1]
            # downcast: (base as Variant)
            m = re.match(r'^(.*) as (\w+)$', inner)
            if m and s.balanced(m.group(1)):
                b, bt = s.place(f, m.group(1))
                return b, ('variant', bt, m.group(2))
            # field: base.k: Ty
            for mm in re.finditer(r'\.(\d+): ', inner):
                base = inner[:mm.start()]
                if s.balanced(base):
                    b, bt = s.place(f, base)
                    fty = peel(parse_type(inner[mm.end():]))
                    if bt[0] == 'variant': return '%s.v' % b, fty
                    return '%s.f%s' % (b, mm.group(1)), fty
        raise Unsupported('place ' + p)

    @staticmethod
    def balanced(x):
        d = 0
        for ch in x:
            if ch in '([': d += 1
            elif ch in ')]': d -= 1
            if d < 0: return False
        return d == 0

    # ---------------- operands
    def operand(s, f, o, want=None):
        o = o.strip()
        if o.startswith('no_retag '): o = o[9:]
        m = re.match(r'^(copy|move) (.*)$', o)
        if m: return s.place(f, m.group(2))
        m = re.match(r'^const (\d+)_(usize|isize|u8|u32|u64)$', o)
        if m: return '((%s)%s)' % (s.ct.of(('prim', m.group(2))), m.group(1) + ('UL' if m.group(2) in ('usize', 'u64') else '')), ('prim', m.group(2))
        if o == 'const N': return '((size_t)NN)', ('prim', 'usize')
        if o == 'const M': return '((size_t)MM)', ('prim', 'usize')
        if o == 'const core::num::<impl usize>::MAX' or o == 'const usize::MAX': return '((size_t)-1)', ('prim', 'usize')
        if o == 'const true': return '1', ('prim', 'bool')
        if o == 'const false': return '0', ('prim', 'bool')
        if o == 'const ()': return '(unit_t){0}', ('prim', 'unit')
        if o == 'const RangeFull': return '(rangefull_t){0}', ('adt', 'RangeFull', [])
        m = re.match(r'^const ZeroSized: (.*)$', o)
        if m: return '(unit_t){0}', ('prim', 'unit')
        m = re.match(r'^const .*promoted\[\d+\]$', o)
        if m: return '((void *)EMPTY)', want or ('ptr', ('array', ('tok',), '0'))
        m = re.match(r'^const Option::<(.*)>::None$', o)
        if m:
            t = ('adt', 'Option', [parse_type(m.group(1))])
            return '(%s){0}' % s.ct.of(t), t
        if o.startswith('const "') or o.startswith('const b"'): return '(opaque_t){0}', ('opaque', 'str')
        raise Unsupported('operand ' + o)

    # ---------------- rvalues
    def rvalue(s, f, r, lty):
        r = r.strip()
        m = re.match(r'^(\w+)\((.*)\)$', r)
        if m and m.group(1) in BINOPS:
            a, b = split_top(m.group(2))
            return '(%s %s %s)' % (s.operand(f, a)[0], BINOPS[m.group(1)], s.operand(f, b)[0])
        if m and m.group(1) in ('AddWithOverflow', 'SubWithOverflow', 'MulWithOverflow'):
            a, b = split_top(m.group(2))
            return 'rt_%s(%s, %s)' % (m.group(1), s.operand(f, a)[0], s.operand(f, b)[0])
        if m and m.group(1) == 'Not': return '(!%s)' % s.operand(f, m.group(2))[0]
        if m and m.group(1) == 'PtrMetadata':
            e, t = s.operand(f, m.group(2))
            if is_fat(t): return '%s.len' % e
            raise Unsupported('PtrMetadata of thin')
        if m and m.group(1) == 'discriminant':
            e, t = s.place(f, m.group(2))
            return '%s.disc' % e
        # casts
        m = re.match(r'^(.*) as (.*) \((\w+(?:\(.*\))?)\)$', r)
        if m:
            e, t = s.operand(f, m.group(1))
            kind = m.group(3)
            tt = peel(parse_type(m.group(2)))
            if kind.startswith('PointerCoercion(Unsize'):
                if t[0] == 'ptr' and t[1][0] == 'array':
                    return '(%s){ (%s)->a, %s }' % (s.ct.of(tt), e, s.ct.clen(t[1][2]))
                raise Unsupported('unsize of ' + repr(t))
            if kind == 'IntToInt': return '((%s)%s)' % (s.ct.of(tt), e)
            if kind == 'PtrToPtr':
                if is_fat(t) and is_fat(tt): return e
                if is_fat(t) and not is_fat(tt): return '((%s)%s.ptr)' % (s.ct.of(tt), e)
                return '((%s)%s)' % (s.ct.of(tt), e)
            if kind == 'Transmute': return '(*(%s *)&%s)' % (s.ct.of(tt), e)
            raise Unsupported('cast ' + kind)
        # references
        m = re.match(r'^&(raw )?(mut |const )?(\(fake\) )?(.*)$', r)
        if m and not r.startswith('&&'):
            e, t = s.place(f, m.group(4))
            if t[0] == 'slice': return e                       # reborrow of unsized place
            if e.startswith('(*') and e.endswith(')') and s.balanced(e[2:-1]): return e[2:-1]
            return '&%s' % e
        # aggregates
        if lty and lty[0] == 'tuple' and r.startswith('('):
            parts = split_top(r[1:-1])
            return '(%s){ %s }' % (s.ct.of(lty), ', '.join(s.operand(f, p)[0] for p in parts))
        if lty and lty[0] == 'array' and re.match(r'^\[const .*\{constant#\d+\}; [NM]\]$', r):
            return None          # [const { MaybeUninit::uninit() }; N]: stays uninitialised (nondeterministic)
        if lty and lty[0] == 'array' and r.startswith('['):
            if lty[1][0] == 'opaque' or s.ct.of(lty[1]) == 'opaque_t': return None
            parts = split_top(r[1:-1])
            return '(%s){ { %s } }' % (s.ct.of(lty), ', '.join(s.operand(f, p)[0] for p in parts) or '0')
        m = re.match(r'^Option::<(.*)>::Some\((.*)\)$', r)
        if m: return '(%s){ 1, %s }' % (s.ct.of(lty), s.operand(f, m.group(2))[0])
        m = re.match(r'^Option::<(.*)>::None$', r)
        if m: return '(%s){ 0 }' % s.ct.of(lty)
        m = re.match(r'^Result::<(.*)>::Ok\((.*)\)$', r)
        if m: return '(%s){ 0 }' % s.ct.of(lty)
        m = re.match(r'^Result::<(.*)>::Err\((.*)\)$', r)
        if m: return '(%s){ 1, %s }' % (s.ct.of(lty), s.operand(f, m.group(2))[0])
        m = re.match(r'^(.*?)\s*\{ (.*) \}$', r)               # struct / closure aggregate with named fields
        if m and lty and lty[0] in ('adt', 'closure'):
            fields = [x.split(': ', 1) for x in split_top(m.group(2))]
            if lty[0] == 'closure':
                return '(%s){ (void *)%s }' % (s.ct.of(lty), s.operand(f, fields[0][1])[0])
            if lty[1] in ('Range',): return '(range_t){ %s, %s }' % tuple(s.operand(f, v)[0] for k, v in fields)
            if lty[1] in ('RangeTo', 'RangeFrom'): return '(%s){ %s }' % (s.ct.of(lty), s.operand(f, fields[0][1])[0])
            defs = s.structs.get(lty[1])
            if defs is None: raise Unsupported('aggregate of unknown struct ' + lty[1])
            vals = dict((k.strip(), v) for k, v in fields)
            return '(%s){ %s }' % (s.ct.of(lty), ', '.join(s.operand(f, vals[fn])[0] for fn, ft in defs))
        m = re.match(r'^(.*)::<.*>\((.*)\)$', r)               # tuple-struct constructor
        if m and lty and lty[0] == 'adt' and lty[1] in s.structs:
            return '(%s){ %s }' % (s.ct.of(lty), ', '.join(s.operand(f, p)[0] for p in split_top(m.group(2))))
        return s.operand(f, r, lty)[0]

    # ---------------- callee resolution
    def resolve(s, f, callee, args):
        c = strip_lifetimes(callee)
        raw = c
        c = strip_turbofish(c)
        c = re.sub(r'\b(std|core|alloc)::([a-z_0-9]+::)*', '', c)
        c = re.sub(r'\b(drain|iter)::', '', c)
        # 1. crate functions
        cands = []
        m = re.match(r'^(\w+)::(\w+)$', c)
        if m: cands.append('%s::%s' % (m.group(1), m.group(2)))
        m = re.match(r'^<(\w+)(?:<.*>)? as (\w+)(?:<.*>)?>::(\w+)$', c)
        if m: cands.append('%s for %s::%s' % (m.group(2), m.group(1), m.group(3)))
        if re.match(r'^\w+$', c): cands.append(c)
        for k in cands:
            g = s.lookup(k)
            if g is not None: return ('mir', g)
        # 2. user hooks (generic parameters)
        hooks = [
            (r'^<T as Clone>::clone$', 'user_clone'),
            (r'^<T as PartialEq<U>>::eq$', 'user_eq'),
            (r'^<F as FnMut<\(\)>>::call_mut$', 'user_call_mut'),
            (r'^<R as RangeBounds<usize>>::start_bound$', 'user_start_bound'),
            (r'^<R as RangeBounds<usize>>::end_bound$', 'user_end_bound'),
            (r'^<I as IntoIterator>::into_iter$', 'user_into_iter'),
            (r'^<Cloned<Iter<T>> as IntoIterator>::into_iter$', 'user_into_iter'),
            (r'^<Iter<T> as Iterator>::cloned$', 'rt_cloned'),
        ]
        for pat, name in hooks:
            if re.match(pat, c): return ('rt', name)
        m = re.match(r'^Option::map$', c)
        if m:
            clo = re.search(r'map::<.*?(\{closure@[^}]*\})>', strip_lifetimes(callee)).group(1)
            cid = parse_type(clo)
            body = [g for k, v in s.fns.items() for g in v if g.args and mangle(parse_type(g.locals[g.args[0]])) == mangle(cid)]
            if not body: raise Unsupported('closure body for ' + clo)
            return ('option_map', body[0])
        m = re.match(r'^<<I as IntoIterator>::IntoIter as Iterator>::for_each$', c)
        if m:
            clo = re.search(r'for_each::<(\{closure@[^}]*\})>', strip_lifetimes(callee)).group(1)
            cid = parse_type(clo)
            body = [g for k, v in s.fns.items() for g in v if g.args and mangle(parse_type(g.locals[g.args[0]])) == mangle(('ptr', cid))]
            if not body: raise Unsupported('closure body for ' + clo)
            return ('for_each', body[0])
        # 3. libcore models, keyed on a normalised spelling
        key = re.sub(r'\bMaybeUninit<T>', 'T', c)
        key = re.sub(r'\bU\b', 'T', key)
        table = [
            (r'^Range::is_empty$', 'rt_range_is_empty'),
            (r'^<Range<usize> as ExactSizeIterator>::len$', 'rt_range_len'),
            (r'^<Range<usize> as Iterator>::next$', 'rt_range_next'),
            (r'^<(Range<usize>|usize|bool) as Clone>::clone$', 'rt_deref_ptr'),
            (r'^<Range<usize> as DoubleEndedIterator>::next_back$', 'rt_range_next_back'),
            (r'^<usize as Ord>::cmp$', 'rt_cmp_usize'),
            (r'^<Option<.*> as Try>::branch$', 'TRY_BRANCH'),
            (r'^<Option<.*> as FromResidual<.*>>::from_residual$', 'NONE'),
            (r'^<impl \[T\]>::split_first(_mut)?$', 'SPLIT_FIRST'),
            (r'^<impl \[T\]>::split_off_first(_mut)?$', 'SPLIT_OFF_FIRST'),
            (r'^<impl \[T\]>::split_off_last(_mut)?$', 'SPLIT_OFF_LAST'),
            (r'^<impl \[T\]>::split_off(_mut)?$', 'rt_split_off'),
            (r'^<\[T\]>::write_clone_of_slice$', 'rt_write_clone_of_slice'),
            (r'^<\[T\]>::assume_init_(mut|ref)$', 'rt_identity'),
            (r'^<impl \[T\]>::split_last(_mut)?$', 'SPLIT_LAST'),
            (r'^take$', 'TAKE_SLICE'),
            (r'^<impl \[T\]>::as_mut_ptr$|^<impl \[T\]>::as_ptr$', 'FAT_PTR'),
            (r'^<\[T\] as Index(Mut)?<RangeFull>>::index(_mut)?$', 'rt_identity'),
            (r'^<\[T\] as PartialEq<\[T\]>>::eq$', 'rt_slice_eq'),
            (r'^<&\[T\] as PartialEq<&\[T\]>>::eq$', 'rt_slice_eq_ref'),
            (r'^<\[T; [NM0]\] as Index<Range<usize>>>::index$', 'rt_arr_index_range'),
            (r'^<Range<usize> as IntoIterator>::into_iter$', 'rt_identity_range'),
            (r'^<\[T; [NM0]\] as IndexMut<Range<usize>>>::index_mut$', 'rt_arr_index_range'),
            (r'^<\[T; [NM0]\] as Index(Mut)?<RangeFull>>::index(_mut)?$', 'rt_arr_index_full'),
            (r'^<\[T; [NM0]\] as Index(Mut)?<RangeTo<usize>>>::index(_mut)?$', 'rt_arr_index_to'),
            (r'^<\[T\] as Index(Mut)?<RangeTo<usize>>>::index(_mut)?$', 'rt_slice_index_to'),
            (r'^<\[T\] as Index(Mut)?<RangeFrom<usize>>>::index(_mut)?$', 'rt_slice_index_from'),
            (r'^<\[T\] as Index(Mut)?<Range<usize>>>::index(_mut)?$', 'rt_slice_index_range'),
            (r'^<impl \[T\]>::split_at(_mut)?$', 'rt_split_at'),
            (r'^drop_in_place$', 'DROP_IN_PLACE'),
            (r'^MaybeUninit::assume_init_drop$', 'rt_drop_one'),
            (r'^write$', 'rt_ptr_write'),
            (r'^swap$', 'rt_mem_swap'),
            (r'^Option::unwrap$', 'rt_option_expect'),
            (r'^<impl usize>::saturating_sub$', 'rt_saturating_sub'),
            (r'^<impl usize>::wrapping_add$', 'rt_wrapping_add'),
            (r'^<impl usize>::wrapping_sub$', 'rt_wrapping_sub'),
            (r'^max$|^<usize as Ord>::max$', 'rt_max'),
            (r'^<impl usize>::overflowing_add$', 'rt_AddWithOverflow'),
            (r'^<impl usize>::checked_add$', 'rt_checked_add'),
            (r'^<impl usize>::checked_sub$', 'rt_checked_sub'),
            (r'^min$|^<usize as Ord>::min$', 'rt_min'),
            (r'^Option::expect$', 'rt_option_expect'),
            (r'^MaybeUninit::(<.*>::)?uninit$', 'rt_uninit'),
            (r'^MaybeUninit::(<.*>::)?assume_init$', 'rt_identity'),
            (r'^MaybeUninit::assume_init_(mut|ref)$', 'rt_identity'),
            (r'^ManuallyDrop::new$', 'rt_identity'),
            (r'^<ManuallyDrop<.*> as Deref(Mut)?>::deref(_mut)?$', 'rt_identity'),
            (r'^MaybeUninit::assume_init_read$', 'rt_read'),
            (r'^MaybeUninit::write$', 'rt_write'),
            (r'^replace$', 'rt_replace'),
            (r'^forget$', 'rt_forget'),
            (r'^drop$', 'DROP_ARG'),
            (r'^<impl \*(const|mut) T>::add$', 'rt_ptr_add'),
            (r'^copy$', 'rt_copy'),
            (r'^copy_nonoverlapping$', 'rt_copy_nonoverlapping'),
            (r'^swap_nonoverlapping$', 'rt_swap'),
            (r'^read$', 'rt_read'),
            (r'^<NonNull<CircularBuffer<N, T>> as From<&mut CircularBuffer<N, T>>>::from$', 'rt_identity'),
            (r'^NonNull::as_(mut|ref)$', 'rt_deref_ptr'),
            (r'^Argument::new_\w+$|^Arguments::(new|from_str|new_const|new_v1)$', 'OPAQUE'),
            (r'^(panic_fmt|panic|panic_nounwind|assert_failed|expect_failed|unwrap_failed)$', 'PANIC'),
        ]
        for pat, name in table:
            if re.match(pat, key): return ('rt', name)
        return ('unsupported', raw)

    # ---------------- drop glue
    def drop_glue(s, f, e, t):
        """C statements dropping the value stored in lvalue e of type t"""
        k = t[0]
        if k == 'nodrop': return []
        if k == 'tok': return ['tok_drop(&%s);' % e]
        if k in ('prim', 'ptr', 'opaque', 'closure'): return []
        if k == 'param': return ['user_drop_%s(&%s);' % (t[1], e)]
        if k == 'array':
            if t[1][0] != 'tok': return []
            return ['rt_drop_in_place_slice((fat_tok){ %s.a, %s });' % (e, s.ct.clen(t[2]))]
        if k == 'tuple':
            out = []
            for i, x in enumerate(t[1]): out += s.drop_glue(f, '%s.f%d' % (e, i), x)
            return out
        if k == 'adt':
            if t[1] == 'Option':
                inner = s.drop_glue(f, '%s.v' % e, t[2][0])
                return ['if (%s.disc == 1) { %s }' % (e, ' '.join(inner))] if inner else []
            if t[1] in ('Range', 'RangeTo', 'RangeFrom', 'RangeFull'): return []
            out = []
            impl = s.lookup('Drop for %s::drop' % t[1])
            if impl is not None:
                s.need(impl)
                out.append('%s(&%s);' % (s.cname(impl), e))
            for i, (fn, ft) in enumerate(s.structs.get(t[1], [])):
                out += s.drop_glue(f, '%s.f%d' % (e, i), ft)
            return out
        raise Unsupported('drop glue for ' + repr(t))

    def need(s, g):
        if g not in s.needed and id(g) not in s.emitted: s.needed.append(g)

    # ---------------- terminators
    def unwind_action(s, spec):
        spec = spec.strip()
        if spec == 'continue': return 'return _0;'
        if spec.startswith('terminate'): return 'rt_abort();'
        if spec == 'unreachable': return '__CPROVER_assert(0, "unwind edge marked unreachable");'
        return 'goto %s;' % spec

    def guarded(s, stmt, unw):
        return '{ unsigned p0 = PANICS; %s if (PANICS != p0) { %s } }' % (stmt, s.unwind_action(unw))

    def terminator(s, f, t):
        t = t.strip()
        if t == 'return': return ['return _0;']
        if t == 'resume': return ['return _0; /* resume */']
        if t == 'unreachable': return ['__CPROVER_assert(0, "MIR unreachable reached"); __CPROVER_assume(0);']
        m = re.match(r'^goto -> (bb\d+)$', t)
        if m: return ['goto %s;' % m.group(1)]
        m = re.match(r'^switchInt\((.*)\) -> \[(.*)\]$', t)
        if m:
            v = s.operand(f, m.group(1))[0]
            out = []
            for arm in split_top(m.group(2)):
                k, bb = arm.split(': ')
                out.append('goto %s;' % bb if k == 'otherwise' else 'if (%s == %s) goto %s;' % (v, k, bb))
            return out
        m = re.match(r'^assert\((!?)(.*?), "(.*)\) -> \[success: (bb\d+), unwind:? ?(.*)\]$', t)
        if m:
            cond = s.operand(f, m.group(2))[0]
            if m.group(1): cond = '!' + cond
            return ['if (%s) goto %s;' % (cond, m.group(4)), 'rt_panic();', s.unwind_action(m.group(5))]
        m = re.match(r'^drop\((.*)\) -> \[return: (bb\d+), unwind:? ?(.*)\]$', t)
        if m:
            e, ty = s.place(f, m.group(1))
            if re.match(r'^_\d+$', m.group(1).strip()): ty = s.ltype_raw(f, m.group(1).strip())
            glue = ' '.join(s.drop_glue(f, e, ty))
            return [s.guarded(glue, m.group(3)), 'goto %s;' % m.group(2)]
        # calls
        sc = split_call(t)
        m = re.match(r'^(?:\[return: (bb\d+), unwind:? ?(.*)\]|unwind (.*)|(bb\d+))$', sc[3]) if sc else None
        if m:
            dest, callee, args = sc[0], sc[1], sc[2]
            ret, unw, unw2, unwbb = m.groups()
            unw = unw or unw2 or unwbb
            argl = split_top(args)
            kind = s.resolve(f, callee, argl)
            de, dt = s.place(f, dest)
            dct = s.ct.of(dt)
            goto_ret = ['goto %s;' % ret] if ret else ['__CPROVER_assert(0, "diverging call returned"); __CPROVER_assume(0);']
            if kind[0] == 'unsupported':
                s.unsupported.append(kind[1])
                return ['__CPROVER_assert(0, "UNSUPPORTED callee reached: %s");' % kind[1].replace('"', "'"), '__CPROVER_assume(0);']
            if kind[0] == 'mir':
                g = kind[1]; s.need(g)
                avs = []
                for i, a in enumerate(argl):
                    e, t = s.operand(f, a)
                    pt = s.ltype(g, g.args[i]) if i < len(g.args) else None
                    # a concrete range passed for a generic `R: RangeBounds<usize>`: libcore's RangeBounds impls
                    if pt == ('param', 'R') and t[0] == 'adt' and t[1] in ('RangeTo', 'RangeFrom', 'Range', 'RangeFull'):
                        e = 'rt_%s_as_R(%s)' % (t[1].lower(), e)
                    avs.append(e)
                return [s.guarded('%s = %s(%s);' % (de, s.cname(g), ', '.join(avs)), unw)] + goto_ret
            if kind[0] == 'option_map':
                g = kind[1]; s.need(g)
                o = s.operand(f, argl[0])[0]; clo = s.operand(f, argl[1])[0]
                body = '{ %s.disc = 0; if (%s.disc == 1) { %s.v = %s(%s, %s.v); %s.disc = 1; } }' % (de, o, de, s.cname(g), clo, o, de)
                return [s.guarded(body, unw)] + goto_ret
            if kind[0] == 'for_each':
                g = kind[1]; s.need(g)
                it = s.operand(f, argl[0])[0]; clo = s.operand(f, argl[1])[0]
                body = ('{ user_I_t it_ = %s; __typeof__(%s) clo_ = %s; _Bool failed_ = 0; '
                        'while (1) { unsigned q0 = PANICS; option_tok o_ = user_next(&it_); if (PANICS != q0) { break; } '
                        'if (o_.disc == 0) break; %s(&clo_, o_.v); if (PANICS != q0) { break; } } user_drop_I(&it_); }') % (it, clo, clo, s.cname(g))
                s.ct.of(('adt', 'Option', [('tok',)]))
                return [s.guarded(body, unw)] + goto_ret
            name = kind[1]
            if name == 'PANIC': return ['rt_panic();', s.unwind_action(unw)]
            if name == 'OPAQUE': return goto_ret
            avs = [s.operand(f, a) for a in argl]
            if name == 'DROP_ARG':
                am = re.match(r'^(?:copy|move) (_\d+)$', argl[0].strip())
                aty = s.ltype_raw(f, am.group(1)) if am else avs[0][1]
                glue = ' '.join(s.drop_glue(f, avs[0][0], aty))
                return [s.guarded(glue, unw)] + goto_ret
            if name == 'TRY_BRANCH':
                stmt = '{ %s.disc = (%s.disc == 1) ? 0 : 1; %s.v = %s.v; }' % (de, avs[0][0], de, avs[0][0])
                return [stmt] + goto_ret
            if name == 'NONE':
                return ['%s.disc = 0;' % de] + goto_ret
            if name in ('SPLIT_FIRST', 'SPLIT_LAST'):
                a = avs[0][0]
                if name == 'SPLIT_FIRST':
                    stmt = '{ %s.disc = (%s.len != 0); if (%s.disc) { %s.v.f0 = %s.ptr; %s.v.f1.ptr = %s.ptr + 1; %s.v.f1.len = %s.len - 1; } }' % (de, a, de, de, a, de, a, de, a)
                else:
                    stmt = '{ %s.disc = (%s.len != 0); if (%s.disc) { %s.v.f0 = %s.ptr + (%s.len - 1); %s.v.f1.ptr = %s.ptr; %s.v.f1.len = %s.len - 1; } }' % (de, a, de, de, a, a, de, a, de, a)
                return [stmt] + goto_ret
            if name in ('SPLIT_OFF_FIRST', 'SPLIT_OFF_LAST'):
                a = avs[0][0]        # &mut &[T]
                if name == 'SPLIT_OFF_FIRST':
                    stmt = '{ %s.disc = ((*%s).len != 0); if (%s.disc) { %s.v = (*%s).ptr; (*%s).ptr = (*%s).ptr + 1; (*%s).len -= 1; } }' % (de, a, de, de, a, a, a, a)
                else:
                    stmt = '{ %s.disc = ((*%s).len != 0); if (%s.disc) { %s.v = (*%s).ptr + ((*%s).len - 1); (*%s).len -= 1; } }' % (de, a, de, de, a, a, a)
                return [stmt] + goto_ret
            if name == 'TAKE_SLICE':
                a = avs[0][0]
                pt = peel(avs[0][1])
                if pt[0] == 'ptr' and peel(pt[1])[0] == 'prim':      # mem::take::<usize> etc.: Default is 0
                    return ['{ %s = *%s; *%s = 0; }' % (de, a, a)] + goto_ret
                return ['{ %s = *%s; (*%s).ptr = EMPTY; (*%s).len = 0; }' % (de, a, a, a)] + goto_ret
            if name == 'FAT_PTR':
                return ['%s = %s.ptr;' % (de, avs[0][0])] + goto_ret
            if name == 'rt_slice_eq_ref':
                return [s.guarded('%s = rt_slice_eq(*%s, *%s);' % (de, avs[0][0], avs[1][0]), unw)] + goto_ret
            if name == 'DROP_IN_PLACE':
                name = 'rt_drop_in_place_slice' if is_fat(avs[0][1]) else 'rt_drop_one'
            # type-generic models, emitted inline (the element may be a token, an integer, a struct ...)
            if name == 'rt_replace':
                return ['{ __typeof__(*%s) old_ = *%s; *%s = %s; %s = old_; }' % (avs[0][0], avs[0][0], avs[0][0], avs[1][0], de)] + goto_ret
            if name == 'rt_read':
                return ['%s = *%s;' % (de, avs[0][0])] + goto_ret
            if name == 'rt_write':
                return ['{ *%s = %s; %s = %s; }' % (avs[0][0], avs[1][0], de, avs[0][0])] + goto_ret
            if name == 'rt_ptr_write':
                return ['*%s = %s;' % (avs[0][0], avs[1][0])] + goto_ret
            if name == 'rt_mem_swap':
                return ['{ __typeof__(*%s) t_ = *%s; *%s = *%s; *%s = t_; }' % (avs[0][0], avs[0][0], avs[0][0], avs[1][0], avs[1][0])] + goto_ret
            if name == 'rt_identity': call = avs[0][0]
            elif name == 'rt_identity_range': call = avs[0][0]
            elif name == 'rt_deref_ptr': call = '(*%s)' % avs[0][0]
            elif name == 'rt_uninit': call = None
            elif name == 'rt_forget': call = '(unit_t){0}'
            elif name == 'rt_arr_index_range': call = 'rt_slice_index_range((fat_tok){ (%s)->a, %s }, %s)' % (avs[0][0], s.ct.clen(avs[0][1][1][2]), avs[1][0])
            elif name == 'rt_arr_index_to': call = 'rt_slice_index_to((fat_tok){ (%s)->a, %s }, %s)' % (avs[0][0], s.ct.clen(avs[0][1][1][2]), avs[1][0])
            elif name == 'rt_arr_index_full':
                if avs[0][1][0] == 'ptr' and avs[0][1][1][0] == 'array' and avs[0][1][1][2] != '0' and 'EMPTY' not in avs[0][0]:
                    call = '(fat_tok){ (%s)->a, %s }' % (avs[0][0], s.ct.clen(avs[0][1][1][2]))
                else: call = '(fat_tok){ EMPTY, 0 }'
            elif name == 'rt_min': call = 'rt_min(%s, %s)' % (avs[0][0], avs[1][0])
            elif name == 'rt_max': call = 'rt_max(%s, %s)' % (avs[0][0], avs[1][0])
            elif name == 'rt_option_expect': call = 'rt_option_expect(%s.disc) ? %s.v : %s.v' % (avs[0][0], avs[0][0], avs[0][0])
            else: call = '%s(%s)' % (name, ', '.join(a[0] for a in avs))
            if dct == 'opaque_t' or call is None: stmt = (call + ';') if call and '(' in call and not call.startswith('(') else ''
            else: stmt = '%s = %s;' % (de, call)
            return [s.guarded(stmt, unw)] + goto_ret
        raise Unsupported('terminator ' + t)

    # ---------------- functions
    def signature(s, f):
        return '%s %s(%s)' % (s.ct.of(parse_type(f.ret)), s.cname(f),
                               ', '.join('%s %s' % (s.ct.of(s.ltype(f, a)), a) for a in f.args) or 'void')

    def emit(s, f):
        out = ['#ifndef SKIP_%s' % s.cname(f), s.signature(f) + ' {']
        for l, t in f.locals.items():
            if l not in f.args:
                out.append('  %s %s;' % (s.ct.of(parse_type(t)), l))
        for bb in f.order:
            cleanup, stmts = f.blocks[bb]
            stmts = list(stmts); term = stmts.pop()
            out.append(' %s: ;' % bb + (' /* cleanup */' if cleanup else ''))
            for st in stmts:
                m = re.match(r'^(.*?) = (.*)$', st)
                if not m:
                    if st.startswith(('StorageLive', 'StorageDead', 'nop', 'FakeRead', 'Retag', 'PlaceMention', 'AscribeUserType', 'Coverage', 'ConstEvalCounter')): continue
                    raise Unsupported('statement ' + st)
                le, lt = s.place(f, m.group(1))
                if s.ct.of(lt) == 'opaque_t' and not is_fat(lt): continue
                if re.match(r'^const b?"', m.group(2)): continue          # string literals: panic messages only
                rv = s.rvalue(f, m.group(2), lt)
                if rv is None: continue
                out.append('  %s = %s;' % (le, rv))
            for l in s.terminator(f, term): out.append('  ' + l)
        out.append('}')
        out.append('#endif')
        return '\n'.join(out)

    def run(s, roots):
        for r in roots:
            g = s.lookup(r)
            if g is None: raise SystemExit('root not found: %s   (have e.g. %s)' % (r, sorted(s.fns)[:400]))
            s.need(g)
        bodies = []
        while s.needed:
            g = s.needed.pop(0)
            if id(g) in s.emitted: continue
            s.emitted[id(g)] = True
            try:
                bodies.append(s.emit(g))
            except Unsupported as e:
                s.unsupported.append('%s: %s' % (g.sname, e))
                bodies.append('%s { __CPROVER_assert(0, "UNSUPPORTED body reached: %s"); __CPROVER_assume(0); }' % (s.signature(g), g.sname))
            s.protos.append(s.signature(g) + ';')
        return bodies

if __name__ == '__main__':
    mir, srcdir, out = sys.argv[1:4]
    tr = Translator(open(mir).read(), srcdir)
    if sys.argv[4:] == ['--list']:
        for k in sorted(tr.fns): print(k, len(tr.fns[k]))
        sys.exit(0)
    for t in ('&mut [T]', 'Option<T>', 'Option<&T>', 'Option<&mut [T]>', 'Option<usize>', 'Result<(), T>', 'Bound<&usize>', '(usize, bool)', '(&mut [T], &mut [T])', 'Iter<T>'):
        tr.ct.of(parse_type(t))
    roots = list(sys.argv[4:]) + ['Iterator for Iter::next']
    bodies = tr.run(roots)
    with open(out, 'w') as fh:
        fh.write('/* generated by mir2c; do not edit */\n')
        fh.write('#include "rt_base.h"\n' + '\n'.join(tr.ct.defs) + '\n\n#define MIR_ITER_NEXT mir_Iterator_for_Iter_next\n#include "rt_models.h"\n\n')
        fh.write('\n'.join(tr.protos) + '\n\n')
        fh.write('\n\n'.join(bodies) + '\n')
    for u in tr.unsupported: print('UNSUPPORTED:', u, file=sys.stderr)
    print('translated %d functions, %d unsupported' % (len(tr.emitted), len(tr.unsupported)), file=sys.stderr)
