/* mir2c runtime, part 2 (included after the generated typedefs):
   unwinding protocol, ownership ledger, user hooks with a symbolic fault, models of libcore callees.
   Every model here is part of the claim and is listed in the evidence (DESIGN 2.2.2). */

/* ---- user iterator: either a generator of fresh objects or `iter().cloned()` over a crate Iter */
typedef struct { int mode; size_t remaining; st_Iter it; } user_I_t;                 /* I: Iterator<Item = T> */

static tok_t EMPTY_STORE[1];
#define EMPTY (&EMPTY_STORE[0])

/* ---- unwinding protocol: a panic increments PANICS; every call site compares before/after */
_Bool UNWINDING = 0; unsigned PANICS = 0; _Bool ABORTED = 0;
static void rt_panic(void) { PANICS++; UNWINDING = 1; }
static void rt_abort(void) { ABORTED = 1; __CPROVER_assume(0); }

/* ---- ledger + fault model */
#define IDS 128
enum { NEVER = 0, LIVE = 1, DEAD = 2 };
unsigned char LEDGER[IDS];
#ifdef SELFTEST
unsigned char DROPCOUNT[IDS];
#endif
_Bool DOUBLE_DROP = 0, GARBAGE_DROP = 0, GARBAGE_READ = 0;
unsigned char DROP_ORDER[64]; unsigned DROP_N = 0;      /* ids in the order their destructors ran */
unsigned char CLONE_OF[IDS];                          /* for an id made by user_clone: the id it was cloned from */
enum { F_NONE = 0, F_DROP, F_CLONE, F_CALL, F_NEXT, F_EQ };
unsigned FAULT_KIND = F_NONE, FAULT_AT = 0;
unsigned EV[6];
#define FRESH0 64
unsigned char NEXT_FRESH = FRESH0;         /* ids 64.. are created by clone / closures / iterators */
static _Bool fault(unsigned kind) { unsigned n = EV[kind]++; return FAULT_KIND == kind && n == FAULT_AT; }
static tok_t fresh(void) { tok_t t; t.id = NEXT_FRESH; if (NEXT_FRESH < IDS) LEDGER[NEXT_FRESH] = LIVE; NEXT_FRESH++; return t; }

static void tok_drop(tok_t *p) {
  unsigned char id = p->id;
  if (DROP_N < 64) DROP_ORDER[DROP_N] = id;
  DROP_N++;
#ifdef SELFTEST
  if (id < IDS) DROPCOUNT[id]++;
#endif
  if (id >= IDS || LEDGER[id] == NEVER) GARBAGE_DROP = 1;
  else if (LEDGER[id] == DEAD) DOUBLE_DROP = 1;
  else LEDGER[id] = DEAD;
  if (fault(F_DROP)) rt_panic();
}
static tok_t user_clone(tok_t *src) {
  tok_t t = {0};
  if (src->id >= IDS || LEDGER[src->id] != LIVE) GARBAGE_READ = 1;
  if (fault(F_CLONE)) { rt_panic(); return t; }
  t = fresh();
  if (t.id < IDS) CLONE_OF[t.id] = src->id;
  return t;
}
static _Bool user_eq(tok_t *a, tok_t *b) {
  if (a->id >= IDS || LEDGER[a->id] != LIVE || b->id >= IDS || LEDGER[b->id] != LIVE) GARBAGE_READ = 1;
  if (fault(F_EQ)) { rt_panic(); return 0; }
  return (a->id & 15) == (b->id & 15);
}
static tok_t user_call_mut(user_F_t *f, unit_t u) { tok_t t = {0}; if (fault(F_CALL)) { rt_panic(); return t; } return fresh(); }
static void user_drop_F(user_F_t *f) {}
static void user_drop_R(user_R_t *r) {}
static void user_drop_I(user_I_t *i) {}
static user_I_t user_into_iter(user_I_t i) { return i; }
static user_I_t rt_cloned(st_Iter it) { user_I_t i; i.mode = 1; i.remaining = 0; i.it = it; return i; }
option_ptok MIR_ITER_NEXT(st_Iter *);      /* the translated <Iter as Iterator>::next */
static option_tok user_next(user_I_t *it) {
  option_tok o; o.disc = 0; o.v.id = 0;
  if (it->mode == 1) {                      /* Cloned<Iter<T>>::next = Iter::next, then T::clone */
    option_ptok r = MIR_ITER_NEXT(&it->it);
    if (r.disc == 0) return o;
    unsigned p0 = PANICS; tok_t c = user_clone(r.v);
    if (PANICS != p0) return o;
    o.disc = 1; o.v = c; return o;
  }
  if (fault(F_NEXT)) { rt_panic(); return o; }
  if (it->remaining == 0) return o;
  it->remaining--; o.disc = 1; o.v = fresh(); return o;
}
static bound_pusize user_start_bound(user_R_t *r) { bound_pusize b; b.disc = r->sdisc; b.v = &r->sval; return b; }
static bound_pusize user_end_bound(user_R_t *r) { bound_pusize b; b.disc = r->edisc; b.v = &r->eval; return b; }

/* ---- libcore models */
/* RangeBounds<usize> for RangeTo / RangeFrom / Range / RangeFull (Bound: 0 Included, 1 Excluded, 2 Unbounded) */
static user_R_t rt_rangeto_as_R(rangeto_t r) { user_R_t x; x.sdisc = 2; x.sval = 0; x.edisc = 1; x.eval = r.f0; return x; }
static user_R_t rt_rangefrom_as_R(rangefrom_t r) { user_R_t x; x.sdisc = 0; x.sval = r.f0; x.edisc = 2; x.eval = 0; return x; }
static user_R_t rt_range_as_R(range_t r) { user_R_t x; x.sdisc = 0; x.sval = r.f0; x.edisc = 1; x.eval = r.f1; return x; }
static user_R_t rt_rangefull_as_R(rangefull_t r) { user_R_t x; x.sdisc = 2; x.sval = 0; x.edisc = 2; x.eval = 0; return x; }
static tup_usize_bool rt_AddWithOverflow(size_t a, size_t b) { tup_usize_bool r; r.f0 = a + b; r.f1 = r.f0 < a; return r; }
static tup_usize_bool rt_SubWithOverflow(size_t a, size_t b) { tup_usize_bool r; r.f0 = a - b; r.f1 = a < b; return r; }
#ifdef SELFTEST
static tup_usize_bool rt_MulWithOverflow(size_t a, size_t b) { tup_usize_bool r; r.f1 = __builtin_mul_overflow(a, b, &r.f0); return r; }
#else
static tup_usize_bool rt_MulWithOverflow(size_t a, size_t b) { tup_usize_bool r; r.f0 = a * b; r.f1 = __CPROVER_overflow_mult(a, b); return r; }
#endif
static option_usize rt_checked_add(size_t a, size_t b) { option_usize o; o.v = a + b; o.disc = !(o.v < a); return o; }
static option_usize rt_checked_sub(size_t a, size_t b) { option_usize o; o.v = a - b; o.disc = !(a < b); return o; }
static size_t rt_min(size_t a, size_t b) { return a < b ? a : b; }
static ordering_t rt_cmp_usize(size_t *a, size_t *b) { ordering_t o; o.disc = *a < *b ? -1 : (*a > *b ? 1 : 0); return o; }
static _Bool rt_option_expect(long disc) { if (disc == 0) rt_panic(); return disc != 0; }
static _Bool rt_range_is_empty(range_t *r) { return !(r->f0 < r->f1); }
static size_t rt_range_len(range_t *r) { return r->f0 < r->f1 ? r->f1 - r->f0 : 0; }
static option_usize rt_range_next(range_t *r) { option_usize o; o.disc = 0; o.v = 0; if (r->f0 < r->f1) { o.disc = 1; o.v = r->f0; r->f0++; } return o; }
static option_usize rt_range_next_back(range_t *r) { option_usize o; o.disc = 0; o.v = 0; if (r->f0 < r->f1) { r->f1--; o.disc = 1; o.v = r->f1; } return o; }
static fat_tok rt_slice_index_range(fat_tok s, range_t r) {
  fat_tok o = { EMPTY, 0 };
  if (r.f0 > r.f1 || r.f1 > s.len) { rt_panic(); return o; }
  o.ptr = s.ptr + r.f0; o.len = r.f1 - r.f0; return o;
}
static fat_tok rt_slice_index_to(fat_tok s, rangeto_t r) {
  fat_tok o = { EMPTY, 0 };
  if (r.f0 > s.len) { rt_panic(); return o; }
  o.ptr = s.ptr; o.len = r.f0; return o;
}
static fat_tok rt_slice_index_from(fat_tok s, rangefrom_t r) {
  fat_tok o = { EMPTY, 0 };
  if (r.f0 > s.len) { rt_panic(); return o; }
  o.ptr = s.ptr + r.f0; o.len = s.len - r.f0; return o;
}
static tup_pstok_pstok rt_split_at(fat_tok s, size_t mid) {
  tup_pstok_pstok r = { { EMPTY, 0 }, { EMPTY, 0 } };
  if (mid > s.len) { rt_panic(); return r; }
  r.f0.ptr = s.ptr; r.f0.len = mid; r.f1.ptr = s.ptr + mid; r.f1.len = s.len - mid; return r;
}
/* drop_in_place::<[T]>: every element is dropped even if one destructor panics; a second panic aborts */
static unit_t rt_drop_in_place_slice(fat_tok s) {
  unit_t u = {0}; _Bool failed = 0;
  for (size_t i = 0; i < s.len; i++) {
    unsigned p0 = PANICS; tok_drop(&s.ptr[i]);
    if (PANICS != p0) { if (failed) rt_abort(); failed = 1; }
  }
  return u;
}
/* <[T] as PartialEq<[U]>>::eq: lengths first, then element-wise, stopping at the first difference */
static _Bool rt_slice_eq(fat_tok a, fat_tok b) {
  if (a.len != b.len) return 0;
  for (size_t i = 0; i < a.len; i++) {
    unsigned p0 = PANICS; _Bool e = user_eq(&a.ptr[i], &b.ptr[i]);
    if (PANICS != p0) return 0;
    if (!e) return 0;
  }
  return 1;
}
/* <[T]>::split_off(_mut)(&mut self, range: OneSidedRange) (unstable build): ..n / ..=n take the front, n.. takes the back */
static option_pstok rt_split_off(fat_tok *self, user_R_t r) {
  option_pstok o; o.disc = 0; o.v.ptr = EMPTY; o.v.len = 0;
  size_t n; _Bool front;
  if (r.sdisc == 2 && r.edisc == 1) { n = r.eval; front = 1; }
  else if (r.sdisc == 2 && r.edisc == 0) { if (r.eval == (size_t)-1) return o; n = r.eval + 1; front = 1; }
  else if (r.sdisc == 0 && r.edisc == 2) { n = r.sval; front = 0; }
  else { rt_panic(); return o; }
  if (n > self->len) return o;
  o.disc = 1;
  if (front) { o.v.ptr = self->ptr; o.v.len = n; self->ptr += n; self->len -= n; }
  else { o.v.ptr = self->ptr + n; o.v.len = self->len - n; self->len = n; }
  return o;
}
/* <[MaybeUninit<T>]>::write_clone_of_slice (unstable build): lengths must match; clones in order; if a clone
   panics the already written prefix is dropped (documented contract of libcore's guard) */
static fat_tok rt_write_clone_of_slice(fat_tok dst, fat_tok src) {
  if (dst.len != src.len) { rt_panic(); return dst; }
  for (size_t i = 0; i < src.len; i++) {
    unsigned p0 = PANICS; tok_t c = user_clone(&src.ptr[i]);
    if (PANICS != p0) { fat_tok done = { dst.ptr, i }; rt_drop_in_place_slice(done); return dst; }
    dst.ptr[i] = c;
  }
  return dst;
}
static unit_t rt_drop_one(tok_t *p) { unit_t u = {0}; tok_drop(p); return u; }                 /* drop_in_place::<T>, MaybeUninit::assume_init_drop */
static unit_t rt_ptr_write(tok_t *p, tok_t v) { unit_t u = {0}; *p = v; return u; }
static unit_t rt_mem_swap(tok_t *a, tok_t *b) { unit_t u = {0}; tok_t t = *a; *a = *b; *b = t; return u; }
static size_t rt_saturating_sub(size_t a, size_t b) { return a < b ? 0 : a - b; }
static size_t rt_wrapping_add(size_t a, size_t b) { return a + b; }
static size_t rt_wrapping_sub(size_t a, size_t b) { return a - b; }
static size_t rt_max(size_t a, size_t b) { return a > b ? a : b; }
static tok_t rt_read(tok_t *p) { return *p; }
static tok_t *rt_write(tok_t *p, tok_t v) { *p = v; return p; }
static tok_t rt_replace(tok_t *p, tok_t v) { tok_t old = *p; *p = v; return old; }
static tok_t *rt_ptr_add(tok_t *p, size_t n) { return p + n; }
static unit_t rt_copy(tok_t *src, tok_t *dst, size_t n) {      /* memmove semantics */
  unit_t u = {0};
  if (dst <= src) { for (size_t i = 0; i < n; i++) dst[i] = src[i]; }
  else { for (size_t i = n; i > 0; i--) dst[i-1] = src[i-1]; }
  return u;
}
static unit_t rt_copy_nonoverlapping(tok_t *src, tok_t *dst, size_t n) { unit_t u = {0}; for (size_t i = 0; i < n; i++) dst[i] = src[i]; return u; }
static unit_t rt_swap(tok_t *a, tok_t *b, size_t n) { unit_t u = {0}; for (size_t i = 0; i < n; i++) { tok_t t = a[i]; a[i] = b[i]; b[i] = t; } return u; }
