#include <stdio.h>
#include <stdlib.h>
#define __CPROVER_assume(c) do { if (!(c)) { printf("ABORT\n"); exit(0); } } while (0)
#define __CPROVER_assert(c, m) do { if (!(c)) { printf("CASSERT %s\n", m); } } while (0)
#define __CPROVER_overflow_mult(a, b) __builtin_mul_overflow_p(a, b, (size_t)0)
