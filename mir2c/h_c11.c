#include "gen_all.c"
size_t nondet_size_t(void); _Bool nondet_bool(void);
typedef st_CircularBuffer cb_t;
#define SLOT(b, i) ((b)->f2.a[((b)->f1 + (i)) % (NN ? NN : 1)])
int main() {
  cb_t b; b.f0 = nondet_size_t(); b.f1 = nondet_size_t();
  __CPROVER_assume(b.f0 <= NN && (NN == 0 ? b.f1 == 0 : b.f1 < NN));
  for (size_t i = 0; i < NN; i++) if (i < b.f0) { SLOT(&b, i).id = i; LEDGER[i] = LIVE; }
  cb_t b0 = b;
  size_t i = nondet_size_t(), j = nondet_size_t();
  _Bool must_panic;
#ifdef INDEX
  tok_t *r = mir_Index_for_CircularBuffer_index(&b, i); must_panic = i >= b0.f0;
#else
  mir_CircularBuffer_swap(&b, i, j); must_panic = i >= b0.f0 || j >= b0.f0;
#endif
  _Bool panicked = UNWINDING; UNWINDING = 0;
  __CPROVER_assert(panicked == must_panic, "panics iff documented");
  __CPROVER_assert(b.f0 == b0.f0 && b.f1 == b0.f1, "size/start unchanged");
  for (size_t k = 0; k < NN; k++) if (k < b0.f0) {
    unsigned char want = SLOT(&b0, k).id;
#ifndef INDEX
    if (!panicked) { if (k == i) want = SLOT(&b0, j).id; else if (k == j) want = SLOT(&b0, i).id; }
#endif
    __CPROVER_assert(SLOT(&b, k).id == want, "contents as specified (unchanged after panic)");
  }
#ifdef INDEX
  if (!panicked) __CPROVER_assert(r == &SLOT(&b, i), "index returns the element at position i");
#endif
}
