#include "gen_all.c"
size_t nondet_size_t(void); unsigned nondet_unsigned(void); _Bool nondet_bool(void); unsigned char nondet_uchar(void); long nondet_long(void);
typedef st_CircularBuffer cb_t;
#define SLOT(b, i) ((b)->f2.a[((b)->f1 + (i)) % (NN ? NN : 1)])
static void init_state(cb_t *b) {
  b->f0 = nondet_size_t(); b->f1 = nondet_size_t();
  __CPROVER_assume(b->f0 <= NN && (NN == 0 ? b->f1 == 0 : b->f1 < NN));
  for (size_t i = 0; i < NN; i++) if (i < b->f0) { SLOT(b, i).id = i; LEDGER[i] = LIVE; }
}
static void check_valid(cb_t *b) {
  __CPROVER_assert(b->f0 <= NN, "INV size <= N");
  __CPROVER_assert(NN == 0 ? b->f1 == 0 : b->f1 < NN, "INV start < N");
  for (size_t i = 0; i < NN; i++) if (i < b->f0) {
    tok_t t = SLOT(b, i);
    __CPROVER_assert(t.id < IDS && LEDGER[t.id] == LIVE, "visible element is live");
    for (size_t j = 0; j < i; j++) __CPROVER_assert(SLOT(b, j).id != t.id, "visible elements distinct");
  }
}
static void no_bad_drop(const char *w) { __CPROVER_assert(!DOUBLE_DROP && !GARBAGE_DROP, "no double / garbage drop"); }
static void final_drop(cb_t *b) { FAULT_KIND = F_NONE; mir_Drop_for_CircularBuffer_drop(b); no_bad_drop("final"); }
static void no_leak_of_fresh(void) {      /* every token created during the op is destroyed by now */
  for (unsigned i = 32; i < 32 + 2 * NN + 2; i++) __CPROVER_assert(LEDGER[i] != LIVE, "no leak: created token destroyed");
}

int main() {
  cb_t b; init_state(&b);
  cb_t b0 = b;
  FAULT_AT = nondet_unsigned(); unsigned FAULT_KIND_AT_OP = F_NONE;
#if defined(S_EXTEND_FROM_SLICE)            /* C06: clone k panics */
  FAULT_KIND = nondet_bool() ? F_CLONE : F_NONE;
  FAULT_KIND_AT_OP = FAULT_KIND;
  tok_t src[2 * NN + 1]; size_t m = nondet_size_t(); __CPROVER_assume(m <= 2 * NN + 1);
  for (size_t i = 0; i < 2 * NN + 1; i++) { src[i].id = 16 + i; LEDGER[16 + i] = LIVE; }     /* caller-owned source */
  fat_tok other = { src, m };
  mir_CircularBuffer_extend_from_slice(&b, other);
  _Bool panicked = UNWINDING; UNWINDING = 0;
  no_bad_drop("op"); __CPROVER_assert(!GARBAGE_READ, "clone source live");
  check_valid(&b);
  final_drop(&b);
  no_leak_of_fresh();
#elif defined(S_FILL_WITH)                  /* C06: closure call k panics; C05: destructor in clear() panics */
  FAULT_KIND = nondet_bool() ? (nondet_bool() ? F_CALL : F_DROP) : F_NONE;
  FAULT_KIND_AT_OP = FAULT_KIND;
  user_F_t f = {0};
  mir_CircularBuffer_fill_with(&b, f);
  _Bool panicked = UNWINDING; UNWINDING = 0;
  no_bad_drop("op"); check_valid(&b);
  if (!panicked) __CPROVER_assert(b.f0 == NN, "full after fill_with");
  _Bool was_call = FAULT_KIND == F_CALL;
  final_drop(&b);
  if (was_call || !panicked) no_leak_of_fresh();
#elif defined(S_EXTEND_ITER)                /* C06: iterator next k panics ; C05: evicted destructor panics */
  FAULT_KIND = nondet_bool() ? (nondet_bool() ? F_NEXT : F_DROP) : F_NONE;
  FAULT_KIND_AT_OP = FAULT_KIND;
  user_I_t it; it.remaining = nondet_size_t(); __CPROVER_assume(it.remaining <= 2 * NN + 1); it.next_id = 0;
  mir_Extend_for_CircularBuffer_extend(&b, it);
  _Bool panicked = UNWINDING; UNWINDING = 0;
  no_bad_drop("op"); check_valid(&b);
  _Bool was_next = FAULT_KIND == F_NEXT;
  final_drop(&b);
  if (was_next || !panicked) no_leak_of_fresh();
#elif defined(S_FROM_ARRAY)                 /* C05: destructor of a discarded element panics */
  FAULT_KIND = nondet_bool() ? F_DROP : F_NONE;
  FAULT_KIND_AT_OP = FAULT_KIND;
  arr_aM_tok arr; for (size_t i = 0; i < MM; i++) { arr.a[i].id = 16 + i; LEDGER[16 + i] = LIVE; }
  cb_t r = mir_From_for_CircularBuffer_from(arr);
  _Bool panicked = UNWINDING; UNWINDING = 0;
  no_bad_drop("op");
  if (!panicked) { check_valid(&r); __CPROVER_assert(r.f0 == (NN < MM ? NN : MM), "len"); final_drop(&r); }
#elif defined(S_DRAIN_DROP)                 /* C05: destructor of an un-yielded drained element panics */
  FAULT_KIND = nondet_bool() ? F_DROP : F_NONE;
  FAULT_KIND_AT_OP = FAULT_KIND;
  st_Drain d; d.f0 = &b; d.f1 = b.f0; b.f0 = 0;
  d.f2.f0 = nondet_size_t(); d.f2.f1 = nondet_size_t(); d.f3.f0 = nondet_size_t(); d.f3.f1 = nondet_size_t();
  __CPROVER_assume(d.f2.f0 <= d.f3.f0 && d.f3.f0 <= d.f3.f1 && d.f3.f1 <= d.f2.f1 && d.f2.f1 <= d.f1);
  /* elements of range outside iter were handed to the caller */
  size_t yielded = 0;
  for (size_t i = 0; i < NN; i++) if (i >= d.f2.f0 && i < d.f2.f1 && !(i >= d.f3.f0 && i < d.f3.f1)) { yielded++; }
  mir_Drop_for_Drain_drop(&d);
  _Bool panicked = UNWINDING; UNWINDING = 0;
  no_bad_drop("op"); 
  /* visible elements must be live and not among the yielded ones */
  check_valid(&b);
  for (size_t i = 0; i < NN; i++) if (i < b.f0) {
    unsigned char id = SLOT(&b, i).id;
    __CPROVER_assert(!(id >= d.f2.f0 && id < d.f2.f1), "drained element not visible");
  }
  if (!panicked) {
    __CPROVER_assert(b.f0 == d.f1 - (d.f2.f1 - d.f2.f0), "len after drain");
    for (size_t i = 0; i < NN; i++) if (i < b.f0) __CPROVER_assert(SLOT(&b, i).id == (i < d.f2.f0 ? i : i + (d.f2.f1 - d.f2.f0)), "order after drain");
  }
  final_drop(&b);
#elif defined(S_DRAIN_PANIC_UNCHANGED)      /* C11: bad range => panic, buffer unchanged */
  FAULT_KIND = F_NONE;
  FAULT_KIND_AT_OP = FAULT_KIND;
  user_R_t r; r.sdisc = nondet_long(); r.edisc = nondet_long(); r.sval = nondet_size_t(); r.eval = nondet_size_t();
  __CPROVER_assume(r.sdisc >= 0 && r.sdisc <= 2 && r.edisc >= 0 && r.edisc <= 2);
  unsigned __int128 s = r.sdisc == 0 ? r.sval : r.sdisc == 1 ? (unsigned __int128)r.sval + 1 : 0;
  unsigned __int128 e = r.edisc == 0 ? (unsigned __int128)r.eval + 1 : r.edisc == 1 ? r.eval : b.f0;
  _Bool must_panic = s > e || e > b.f0;
  st_Drain d = mir_Drain_over_range(&b, r);
  _Bool panicked = UNWINDING; UNWINDING = 0;
  __CPROVER_assert(panicked == must_panic, "panics iff documented");
  if (panicked) {
    __CPROVER_assert(b.f0 == b0.f0 && b.f1 == b0.f1, "size/start unchanged after panic");
    for (size_t i = 0; i < NN; i++) if (i < b0.f0) __CPROVER_assert(SLOT(&b, i).id == SLOT(&b0, i).id, "contents unchanged after panic");
  } else {
    __CPROVER_assert(b.f0 == 0 && d.f1 == b0.f0 && d.f2.f0 == (size_t)s && d.f2.f1 == (size_t)e, "drain fields");
  }
#endif
#ifndef S_DRAIN_PANIC_UNCHANGED
  __CPROVER_assert(!panicked || FAULT_KIND_AT_OP != F_NONE, "no panic without an injected fault");
#endif
#ifdef WITNESS
  __CPROVER_assert(!panicked, "WITNESS: panicking run reaches the end");
#endif
  return 0;
}
