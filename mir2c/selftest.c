#include "shim.h"
#include <string.h>
#include "gen_all_st.c"
typedef st_CircularBuffer cb_t;
#define SLOT(b, i) ((b)->f2.a[((b)->f1 + (i)) % (NN ? NN : 1)])

static void run(const char *op, size_t start, size_t size, size_t arg, unsigned kind, unsigned at) {
  cb_t b; memset(&b, 0xEE, sizeof b);
  b.f0 = size; b.f1 = start;
  memset(LEDGER, 0, sizeof LEDGER); memset(EV, 0, sizeof EV); NEXT_FRESH = 32; PANICS = 0; UNWINDING = 0;
  DOUBLE_DROP = GARBAGE_DROP = GARBAGE_READ = 0;
  for (size_t i = 0; i < size; i++) { SLOT(&b, i).id = i; LEDGER[i] = LIVE; }
  tok_t src[2 * NN + 1]; for (size_t i = 0; i < 2 * NN + 1; i++) { src[i].id = 16 + i; LEDGER[16 + i] = LIVE; }
  unsigned char before[IDS]; memcpy(before, LEDGER, IDS);
  FAULT_KIND = kind; FAULT_AT = at;
  if (!strcmp(op, "truncate_back")) mir_CircularBuffer_truncate_back(&b, arg);
  else if (!strcmp(op, "truncate_front")) mir_CircularBuffer_truncate_front(&b, arg);
  else if (!strcmp(op, "extend_from_slice")) { fat_tok o = { src, arg < 2 * NN + 1 ? arg : 2 * NN + 1 }; mir_CircularBuffer_extend_from_slice(&b, o); }
  else if (!strcmp(op, "fill_with")) { user_F_t f = {0}; mir_CircularBuffer_fill_with(&b, f); }
  int panicked = UNWINDING; UNWINDING = 0; FAULT_KIND = F_NONE;
  printf("%s N=%d start=%zu size=%zu arg=%zu fault=%u@%u -> panicked=%d len=%zu ids=[", op, NN, start, size, arg, kind, at, panicked, b.f0);
  for (size_t i = 0; i < b.f0 && i < NN; i++) printf("%s%u", i ? "," : "", SLOT(&b, i).id);
  printf("] drops=[");
  int first = 1;
  for (unsigned i = 0; i < IDS; i++) { unsigned n = DROPCOUNT[i]; if (n) { printf("%s%u:%u", first ? "" : ",", i, n); first = 0; } }
  printf("]\n");
}
int main() {
  const char *ops[] = { "truncate_back", "truncate_front", "extend_from_slice", "fill_with" };
  unsigned faults[][2] = { {0,0},{1,0},{1,1},{1,2},{2,0},{2,1},{2,2},{3,0},{3,1},{3,2} };
  for (int o = 0; o < 4; o++) for (size_t start = 0; start < 3; start++) for (size_t size = 0; size <= 3; size++) for (size_t arg = 0; arg <= 7; arg++) {
    if (o == 3 && arg > 0) continue;
    for (int f = 0; f < 10; f++) { memset(DROPCOUNT, 0, sizeof DROPCOUNT); run(ops[o], start, size, arg, faults[f][0], faults[f][1]); }
  }
  return 0;
}
