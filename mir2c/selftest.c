/* Differential self-test of the MIR->C encoding (DESIGN 2.2.5a): the generated C, compiled with
 * gcc, is run concretely over the same case space as `harness/replay e2-sweep N` (the real crate
 * with real unwinding); both must print identical lines.  Validates translator, libcore models,
 * unwind protocol and the direct construction of Drain states together. */
#include <stdio.h>
#include <stdlib.h>
#include <string.h>
#define __CPROVER_assume(c) do { if (!(c)) { printf("ABORT\n"); exit(3); } } while (0)
#define __CPROVER_assert(c, m) do { if (!(c)) { printf("CASSERT %s\n", m); } } while (0)
#define SELFTEST 1
#include GEN
typedef st_CircularBuffer cb_t;
#define SLOT(b, i) ((b)->f2.a[((b)->f1 + (i)) % (NN ? NN : 1)])

static void reset(void) {
  memset(LEDGER, 0, sizeof LEDGER); memset(EV, 0, sizeof EV); memset(DROPCOUNT, 0, sizeof DROPCOUNT);
  NEXT_FRESH = FRESH0; DROP_N = 0; PANICS = 0; UNWINDING = 0; DOUBLE_DROP = GARBAGE_DROP = GARBAGE_READ = 0; FAULT_KIND = F_NONE; FAULT_AT = 0;
}
static void mk(cb_t *b, size_t start, size_t size, unsigned char base) {
  memset(b, 0xEE, sizeof *b); b->f0 = size; b->f1 = start;
  for (size_t i = 0; i < size; i++) { SLOT(b, i).id = base + i; LEDGER[base + i] = LIVE; }
}
static void print_drops(const char *name) {
  printf(" %s=[", name); int first = 1;
  for (unsigned i = 0; i < IDS; i++) if (DROPCOUNT[i]) { printf("%s%u:%u", first ? "" : ",", i, DROPCOUNT[i]); first = 0; }
  printf("]");
}
static void run(const char *op, size_t start, size_t size, size_t a, size_t bb, size_t start2, size_t size2, unsigned kind, unsigned at) {
  cb_t b, o; reset(); mk(&b, start, size, 0);
  tok_t src[2 * NN + 2]; for (size_t i = 0; i < 2 * NN + 2; i++) { src[i].id = 16 + i; LEDGER[16 + i] = LIVE; }
  int have_buf = 1;
  FAULT_KIND = kind; FAULT_AT = at;
  if (!strcmp(op, "truncate_back")) mir_CircularBuffer_truncate_back(&b, a);
  else if (!strcmp(op, "truncate_front")) mir_CircularBuffer_truncate_front(&b, a);
  else if (!strcmp(op, "clear")) mir_CircularBuffer_clear(&b);
  else if (!strcmp(op, "fill")) { tok_t v; v.id = 32; LEDGER[32] = LIVE; mir_CircularBuffer_fill(&b, v); }
  else if (!strcmp(op, "fill_spare")) { tok_t v; v.id = 32; LEDGER[32] = LIVE; mir_CircularBuffer_fill_spare(&b, v); }
  else if (!strcmp(op, "fill_with")) { user_F_t f = {0}; mir_CircularBuffer_fill_with(&b, f); }
  else if (!strcmp(op, "fill_spare_with")) { user_F_t f = {0}; mir_CircularBuffer_fill_spare_with(&b, f); }
  else if (!strcmp(op, "extend_from_slice")) { fat_tok s = { src, a < 2 * NN + 2 ? a : 2 * NN + 2 }; mir_CircularBuffer_extend_from_slice(&b, s); }
  else if (!strcmp(op, "extend")) { user_I_t it; memset(&it, 0, sizeof it); it.mode = 0; it.remaining = a; mir_Extend_for_CircularBuffer_extend(&b, it); }
  else if (!strcmp(op, "drop")) { mir_Drop_for_CircularBuffer_drop(&b); have_buf = 0; }
  else if (!strcmp(op, "drain_drop")) {
    st_Drain d; d.f0 = &b; d.f1 = b.f0; b.f0 = 0; d.f2.f0 = a; d.f2.f1 = bb; d.f3.f0 = a + start2; d.f3.f1 = bb - size2;
    mir_Drop_for_Drain_drop(&d);
  }
  else if (!strcmp(op, "clone_from")) {
    mk(&o, start2, size2, 48);
    FAULT_KIND = kind; FAULT_AT = at;
    mir_Clone_for_CircularBuffer_clone_from(&b, &o);
  }
  else if (!strcmp(op, "eq")) {
    mk(&o, start2, size2, 48);
    FAULT_KIND = kind; FAULT_AT = at;
    (void)mir_PartialEq_for_CircularBuffer_eq(&b, &o);
  }
  else if (!strcmp(op, "clone")) { cb_t c = mir_Clone_for_CircularBuffer_clone(&b); if (UNWINDING) have_buf = 0; else b = c; /* the source is forgotten; report the clone */ }
  else if (!strcmp(op, "from_iter")) { user_I_t it; memset(&it, 0, sizeof it); it.mode = 0; it.remaining = a; cb_t c = mir_FromIterator_for_CircularBuffer_from_iter(it); if (UNWINDING) have_buf = 0; else b = c; }
  else if (!strcmp(op, "swap")) mir_CircularBuffer_swap(&b, a, bb);
  else if (!strcmp(op, "index")) (void)mir_Index_for_CircularBuffer_index(&b, a);
  else if (!strcmp(op, "index_mut")) (void)mir_IndexMut_for_CircularBuffer_index_mut(&b, a);
  else if (!strcmp(op, "range")) { user_R_t r; r.sdisc = 0; r.sval = a; r.edisc = 1; r.eval = bb; (void)mir_Iter_over_range(&b, r); }
  else if (!strcmp(op, "range_mut")) { user_R_t r; r.sdisc = 0; r.sval = a; r.edisc = 1; r.eval = bb; (void)mir_IterMut_over_range(&b, r); }
  else if (!strcmp(op, "drain_new")) { user_R_t r; r.sdisc = 0; r.sval = a; r.edisc = 1; r.eval = bb; (void)mir_Drain_over_range(&b, r); }
  else { printf("unknown op %s\n", op); exit(2); }
  int panicked = UNWINDING; UNWINDING = 0; FAULT_KIND = F_NONE;
  printf("%s N=%d M=0 start=%zu size=%zu a=%zu b=%zu start2=%zu size2=%zu fault=%u@%u -> panicked=%d", op, NN, start, size, a, bb, start2, size2, kind, at, panicked);
  if (have_buf) {
    printf(" len=%zu ids=[", b.f0);
    for (size_t i = 0; i < b.f0 && i < NN; i++) printf("%s%u", i ? "," : "", SLOT(&b, i).id);
    printf("]");
  } else printf(" len=0 ids=[]");
  print_drops("drops");
  if (have_buf) mir_Drop_for_CircularBuffer_drop(&b);
  print_drops("final");
  printf(" order=[");
  for (unsigned i = 0; i < DROP_N && i < 64; i++) printf("%s%u", i ? "," : "", DROP_ORDER[i]);
  printf("]\n");
}

int main(void) {
  static const unsigned faults[13][2] = { {0,0},{1,0},{1,1},{1,2},{1,3},{2,0},{2,1},{2,2},{3,0},{3,1},{3,2},{4,0},{4,2} };
  const char *ops[] = { "truncate_back", "truncate_front", "clear", "fill", "fill_spare", "fill_with", "fill_spare_with", "extend_from_slice", "extend", "drop" };
  size_t nstarts = NN == 0 ? 1 : NN;
  for (int o = 0; o < 10; o++) for (size_t start = 0; start < nstarts; start++) for (size_t size = 0; size <= NN; size++) {
    const char *op = ops[o];
    size_t amax = 0;
    if (!strcmp(op, "truncate_back") || !strcmp(op, "truncate_front")) amax = NN + 1;
    if (!strcmp(op, "extend_from_slice") || !strcmp(op, "extend")) amax = 2 * NN + 1;
    for (size_t a = 0; a <= amax; a++) for (int f = 0; f < 13; f++) {
      unsigned kind = faults[f][0], at = faults[f][1];
      int relevant = kind <= 1
        || (kind == 2 && (!strcmp(op, "fill") || !strcmp(op, "fill_spare") || !strcmp(op, "extend_from_slice")))
        || (kind == 3 && (!strcmp(op, "fill_with") || !strcmp(op, "fill_spare_with")))
        || (kind == 4 && !strcmp(op, "extend"));
      if (!relevant) continue;
      run(op, start, size, a, 0, 0, 0, kind, at);
    }
  }
  static const unsigned dfaults[4][2] = { {0,0},{1,0},{1,1},{1,2} };
  for (size_t start = 0; start < nstarts; start++) for (size_t size = 0; size <= NN; size++)
    for (size_t a = 0; a <= size; a++) for (size_t b = a; b <= size; b++)
      for (size_t f = 0; f <= b - a; f++) for (size_t k = 0; k <= b - a - f; k++)
        for (int x = 0; x < 4; x++) run("drain_drop", start, size, a, b, f, k, dfaults[x][0], dfaults[x][1]);
  static const unsigned cfaults[6][2] = { {0,0},{1,0},{1,1},{2,0},{2,1},{2,2} };
  for (size_t start = 0; start < nstarts; start++) for (size_t size = 0; size <= NN; size++)
    for (size_t start2 = 0; start2 < nstarts; start2++) for (size_t size2 = 0; size2 <= NN; size2++)
      for (int x = 0; x < 6; x++) run("clone_from", start, size, 0, 0, start2, size2, cfaults[x][0], cfaults[x][1]);
  static const unsigned clfaults[4][2] = { {0,0},{2,0},{2,1},{2,2} };
  for (size_t start = 0; start < nstarts; start++) for (size_t size = 0; size <= NN; size++)
    for (int x = 0; x < 4; x++) run("clone", start, size, 0, 0, 0, 0, clfaults[x][0], clfaults[x][1]);
  static const unsigned fifaults[6][2] = { {0,0},{4,0},{4,1},{4,3},{1,0},{1,1} };
  for (size_t a = 0; a <= 2 * NN + 1; a++) for (int x = 0; x < 6; x++) run("from_iter", 0, 0, a, 0, 0, 0, fifaults[x][0], fifaults[x][1]);
  const char *pops[] = { "swap", "range", "range_mut", "drain_new" };
  for (int o = 0; o < 4; o++) for (size_t start = 0; start < nstarts; start++) for (size_t size = 0; size <= NN; size++)
    for (size_t a = 0; a <= NN + 1; a++) for (size_t b = 0; b <= NN + 1; b++) run(pops[o], start, size, a, b, 0, 0, 0, 0);
  static const unsigned efaults[4][2] = { {0,0},{5,0},{5,1},{5,2} };
  for (size_t start = 0; start < nstarts; start++) for (size_t size = 0; size <= NN; size++)
    for (size_t start2 = 0; start2 < nstarts; start2++) for (size_t size2 = 0; size2 <= NN; size2++)
      for (int x = 0; x < 4; x++) run("eq", start, size, 0, 0, start2, size2, efaults[x][0], efaults[x][1]);
  const char *iops[] = { "index", "index_mut" };
  for (int o = 0; o < 2; o++) for (size_t start = 0; start < nstarts; start++) for (size_t size = 0; size <= NN; size++)
    for (size_t a = 0; a <= NN + 1; a++) run(iops[o], start, size, a, 0, 0, 0, 0, 0);
  return 0;
}
