/* E2 harnesses: symbolic invariant state + symbolic arguments + symbolic fault -> translated
 * operation (explicit unwind edges) -> post-condition at the modelled catch_unwind -> translated
 * buffer destructor -> ledger.  One scenario per -DS_xxx; capacities by -DNN / -DMM.
 * -DWITNESS turns the run into its reachability twin: the WITNESS assertions must come back
 * VIOLATED (DESIGN 2.2.3). */
#include GEN
size_t nondet_size_t(void);
#ifdef SKIP_mir_add_mod
/* contract of add_mod (decided on its own by S_ADD_MOD for all 64-bit inputs): used in place of its body so that
   sub_mod is decided in seconds instead of 800 s; the precondition at the call site is an obligation */
_Bool ADD_MOD_PRE_OK = 1;
size_t mir_add_mod(size_t x, size_t y, size_t m) {
  if (!(m > 0 && x <= m && y <= m)) ADD_MOD_PRE_OK = 0;
  size_t r = nondet_size_t();
  unsigned __int128 sum = (unsigned __int128)x + y, mm = m;
  /* r = (x + y) mod m without a division: x, y <= m, so the quotient is 0, 1 or 2 */
  __CPROVER_assume(m == 0 || (r < m && (sum == r || sum == mm + r || sum == mm + mm + r)));
  return r;
}
#endif unsigned nondet_unsigned(void); _Bool nondet_bool(void); unsigned char nondet_uchar(void); long nondet_long(void);
typedef st_CircularBuffer cb_t;
#define SLOT(b, i) ((b)->f2.a[((b)->f1 + (i)) % (NN ? NN : 1)])

/* inputs recorded under fixed names so that the driver can read them back from a CBMC trace */
size_t CEX_start, CEX_size, CEX_a, CEX_b, CEX_start2, CEX_size2; unsigned CEX_kind, CEX_at;

#ifdef WITNESS
#define PROP(c, m) do { } while (0)
#define WIT(c, m) __CPROVER_assert(!(c), "WITNESS " m)
#else
#define PROP(c, m) __CPROVER_assert(c, m)
#define WIT(c, m) do { } while (0)
#endif

static void init_state(cb_t *b, unsigned char base, size_t *rec_start, size_t *rec_size) {
  b->f0 = nondet_size_t(); b->f1 = nondet_size_t();
  __CPROVER_assume(b->f0 <= NN && (NN == 0 ? b->f1 == 0 : b->f1 < NN));
  *rec_start = b->f1; *rec_size = b->f0;
  for (size_t i = 0; i < NN; i++) if (i < b->f0) { SLOT(b, i).id = base + i; LEDGER[base + i] = LIVE; }
}
#ifndef FAULTS
#define FAULTS 0          /* 0: any of the scenario's fault kinds; 1: destructor faults only (C05); 2: user-code faults only (C06); 3: none */
#endif
static void choose_fault(unsigned k1, unsigned k2) {
  unsigned k = nondet_unsigned();
  __CPROVER_assume(k == F_NONE || k == k1 || k == k2);
  if (FAULTS == 1) __CPROVER_assume(k == F_NONE || k == F_DROP);
  if (FAULTS == 2) __CPROVER_assume(k != F_DROP);
  if (FAULTS == 3) __CPROVER_assume(k == F_NONE);      /* functional cross-check only */
  FAULT_KIND = k; FAULT_AT = nondet_unsigned();
  __CPROVER_assume(FAULT_AT <= 3 * NN + 4);
  CEX_kind = FAULT_KIND; CEX_at = FAULT_AT;
}
static _Bool caller_owned(unsigned char id) { return (id >= 16 && id < 32) || (id >= 48 && id < 64); }
/* the buffer is a valid sequence of live, distinct elements with a consistent length (C05/C06) */
static void check_valid(cb_t *b) {
  PROP(b->f0 <= NN, "INV: size <= N");
  PROP(NN == 0 ? b->f1 == 0 : b->f1 < NN, "INV: start < N");
  for (size_t i = 0; i < NN; i++) if (i < b->f0) {
    tok_t t = SLOT(b, i);
    PROP(t.id < IDS && LEDGER[t.id] == LIVE, "visible element is live (not destroyed, not garbage)");
    PROP(!caller_owned(t.id), "visible element is not an object the caller owns");
    for (size_t j = 0; j < i; j++) PROP(SLOT(b, j).id != t.id, "visible elements are distinct");
  }
}
static void no_bad_drop(void) {
  PROP(!DOUBLE_DROP, "no element is destroyed a second time");
  PROP(!GARBAGE_DROP, "no destructor runs on a slot that holds no element");
  PROP(!GARBAGE_READ, "no clone/comparison reads a slot that holds no live element");
}
static void caller_objects_untouched(void) {
  for (unsigned i = 16; i < 32; i++) PROP(LEDGER[i] != DEAD, "caller-owned source element is not destroyed");
  for (unsigned i = 48; i < 64; i++) PROP(LEDGER[i] != DEAD, "element of the other buffer is not destroyed");
}
static void final_drop(cb_t *b) {
  FAULT_KIND = F_NONE;
  mir_Drop_for_CircularBuffer_drop(b);
  PROP(!UNWINDING, "final drop of the buffer does not panic");
  no_bad_drop();
}
/* every object created during the operation is destroyed by the time the buffer is gone (C06) */
static void no_leak(void) {
  for (unsigned i = FRESH0; i < FRESH0 + 3 * NN + 6 && i < IDS; i++) PROP(LEDGER[i] != LIVE, "no leak: every created element is destroyed by the time the buffer is dropped");
  PROP(LEDGER[32] != LIVE, "no leak: the value passed in is destroyed by the time the buffer is dropped");
  for (unsigned i = 0; i < 16; i++) PROP(LEDGER[i] != LIVE, "no leak: every original element is destroyed by the time the buffer is dropped");
}
/* element lifecycle events (C18): destructor calls k0.. ran on ids first, first+1, .. in that order */
static void dropped_ascending(unsigned k0, size_t first, size_t count) {
#ifndef ORDER
  return;           /* destructor order is only an obligation where the property is about lifecycle events (C18) */
#endif
  PROP(DROP_N == k0 + count, "lifecycle: exactly the expected number of destructor calls");
  for (size_t i = 0; i < NN; i++) if (i < count) PROP(DROP_ORDER[k0 + i] == first + i, "lifecycle: destructors run front to back");
}
static _Bool fault_fired(void) { return FAULT_KIND != F_NONE && EV[FAULT_KIND] > FAULT_AT; }

int main() {
  _Bool panicked = 0;
  unsigned kind_at_op = F_NONE;
  _Bool fired = 0;
#if defined(S_TRUNCATE_BACK) || defined(S_TRUNCATE_FRONT) || defined(S_CLEAR) || defined(S_BUFFER_DROP)
  /* C05: the k-th destructor call panics */
  cb_t b; init_state(&b, 0, &CEX_start, &CEX_size);
  size_t size0 = b.f0, start0 = b.f1;
  choose_fault(F_DROP, F_DROP);
  size_t a = nondet_size_t(); CEX_a = a;
#if defined(S_TRUNCATE_BACK)
  mir_CircularBuffer_truncate_back(&b, a);
#elif defined(S_TRUNCATE_FRONT)
  mir_CircularBuffer_truncate_front(&b, a);
#elif defined(S_CLEAR)
  mir_CircularBuffer_clear(&b); a = 0;
#else
  mir_Drop_for_CircularBuffer_drop(&b); a = 0;
#endif
  panicked = UNWINDING; UNWINDING = 0; kind_at_op = FAULT_KIND; fired = fault_fired();
  no_bad_drop(); check_valid(&b);
  WIT(panicked, "[drop] a destructor panic is reachable");
#if defined(S_TRUNCATE_BACK) || defined(S_TRUNCATE_FRONT)
  WIT(panicked && b.f0 > 0, "[drop] a destructor panic with survivors is reachable");
#endif
  WIT(panicked && start0 + size0 > NN && CEX_at >= 1, "[drop] panic of a later destructor in wrapped contents is reachable");
  if (!panicked) {
    size_t keep = a < size0 ? a : size0;
    PROP(b.f0 == keep, "no fault: length as specified");
    for (size_t i = 0; i < NN; i++) if (i < keep) {
#if defined(S_TRUNCATE_FRONT)
      PROP(SLOT(&b, i).id == i + (size0 - keep), "no fault: the back elements are kept in order");
#else
      PROP(SLOT(&b, i).id == i, "no fault: the front elements are kept in order");
#endif
    }
    for (size_t i = 0; i < NN; i++) if (i < size0) {
#if defined(S_TRUNCATE_FRONT)
      _Bool gone = i < size0 - keep;
#else
      _Bool gone = i >= keep;
#endif
      PROP((LEDGER[i] == DEAD) == gone, "no fault: exactly the truncated elements are destroyed");
    }
#if defined(S_TRUNCATE_FRONT)
    dropped_ascending(0, 0, size0 - keep);
#else
    dropped_ascending(0, keep, size0 - keep);
#endif
  }
  final_drop(&b);
  if (kind_at_op == F_NONE) no_leak();

#elif defined(S_FILL) || defined(S_FILL_SPARE) || defined(S_FILL_WITH) || defined(S_FILL_SPARE_WITH)
  cb_t b; init_state(&b, 0, &CEX_start, &CEX_size);
  size_t size0 = b.f0;
#if defined(S_FILL) || defined(S_FILL_SPARE)
  choose_fault(F_DROP, F_CLONE);
  tok_t v; v.id = 32; LEDGER[32] = LIVE;
#if defined(S_FILL)
  mir_CircularBuffer_fill(&b, v);
#else
  __CPROVER_assume(FAULT_KIND != F_DROP || NN == 0 || size0 == NN);   /* fill_spare destroys only the value it cannot store */
  mir_CircularBuffer_fill_spare(&b, v);
#endif
#else
  choose_fault(F_DROP, F_CALL);
  user_F_t f = {0};
#if defined(S_FILL_WITH)
  mir_CircularBuffer_fill_with(&b, f);
#else
  __CPROVER_assume(FAULT_KIND != F_DROP);
  mir_CircularBuffer_fill_spare_with(&b, f);
#endif
#endif
  panicked = UNWINDING; UNWINDING = 0; kind_at_op = FAULT_KIND; fired = fault_fired();
  no_bad_drop(); check_valid(&b);
  WIT(panicked && kind_at_op != F_DROP, "[user] a user-code panic is reachable");
#if defined(S_FILL) || defined(S_FILL_WITH)
  WIT(panicked && kind_at_op == F_DROP, "[drop] a destructor panic is reachable");
#endif
  WIT(panicked && kind_at_op != F_DROP && b.f0 > 0 && CEX_at >= 1, "[user] a user-code panic after at least one insertion is reachable");
  if (!panicked) {
    PROP(NN == 0 ? b.f0 == 0 : b.f0 == NN, "no fault: the buffer is full afterwards");
#if defined(S_FILL_SPARE) || defined(S_FILL_SPARE_WITH)
    for (size_t i = 0; i < NN; i++) if (i < size0) PROP(SLOT(&b, i).id == i, "no fault: existing elements stay in place");
#endif
#if defined(S_FILL_WITH)
    for (size_t i = 0; i < NN; i++) PROP(SLOT(&b, i).id == FRESH0 + i, "no fault: closure results in call order");
#endif
  }
  final_drop(&b);
  if (kind_at_op != F_DROP) no_leak();

#elif defined(S_EXTEND_FROM_SLICE)
  /* C06: clone k panics; C05: destructor of an evicted element panics */
  cb_t b; init_state(&b, 0, &CEX_start, &CEX_size);
  size_t size0 = b.f0, start0 = b.f1;
  choose_fault(F_DROP, F_CLONE);
  tok_t src[2 * NN + 2]; size_t m = nondet_size_t(); __CPROVER_assume(m <= 2 * NN + 1); CEX_a = m;
  for (size_t i = 0; i < 2 * NN + 2; i++) { src[i].id = 16 + i; LEDGER[16 + i] = LIVE; }     /* caller-owned source */
  fat_tok other = { src, m };
  mir_CircularBuffer_extend_from_slice(&b, other);
  panicked = UNWINDING; UNWINDING = 0; kind_at_op = FAULT_KIND; fired = fault_fired();
  no_bad_drop(); check_valid(&b); caller_objects_untouched();
  WIT(panicked && kind_at_op == F_CLONE, "[user] a clone panic is reachable");
  WIT(panicked && kind_at_op == F_DROP, "[drop] a destructor panic is reachable");
  WIT(panicked && kind_at_op == F_CLONE && m < NN && start0 + size0 < NN && CEX_at >= NN - (start0 + size0) && CEX_at >= 1, "[user] a clone panic while writing the second (wrapped) segment is reachable");
  if (!panicked) {
    size_t total = size0 + m, keep = total > NN ? NN : total, skip = total - keep;
    PROP(b.f0 == keep, "no fault: length as specified");
    for (size_t i = 0; i < NN; i++) if (i < keep) {
      size_t pos = skip + i;
      unsigned char id = SLOT(&b, i).id;
      if (pos < size0) PROP(id == pos, "no fault: old elements first, last N kept, in order");
      else PROP(id >= FRESH0 && id < IDS && CLONE_OF[id] == 16 + (pos - size0), "no fault: then clones of the slice elements, last N kept, in order");
    }
  }
  final_drop(&b); caller_objects_untouched();
  if (kind_at_op != F_DROP) no_leak();

#elif defined(S_EXTEND_ITER) || defined(S_FROM_ITER)
  /* C06: iterator next k panics ; C05: destructor of an evicted element panics */
  choose_fault(F_DROP, F_NEXT);
  user_I_t it; it.mode = 0; it.remaining = nondet_size_t(); __CPROVER_assume(it.remaining <= 2 * NN + 1); CEX_a = it.remaining;
  size_t m = it.remaining;
#if defined(S_EXTEND_ITER)
  cb_t b; init_state(&b, 0, &CEX_start, &CEX_size);
  size_t size0 = b.f0;
  mir_Extend_for_CircularBuffer_extend(&b, it);
#else
  size_t size0 = 0;
  cb_t b = mir_FromIterator_for_CircularBuffer_from_iter(it);
#endif
  panicked = UNWINDING; UNWINDING = 0; kind_at_op = FAULT_KIND; fired = fault_fired();
  no_bad_drop();
  WIT(panicked && kind_at_op == F_NEXT, "[user] an iterator panic is reachable");
  WIT(panicked && kind_at_op == F_DROP, "[drop] a destructor panic (evicted element) is reachable");
#if defined(S_FROM_ITER)
  if (!panicked)
#endif
  {
    check_valid(&b);
    if (!panicked) {
      size_t total = size0 + m, keep = total > NN ? NN : total, skip = total - keep;
      PROP(b.f0 == keep, "no fault: length as specified");
      for (size_t i = 0; i < NN; i++) if (i < keep) {
        size_t pos = skip + i;
        unsigned char want = pos < size0 ? pos : FRESH0 + (pos - size0);
        PROP(SLOT(&b, i).id == want, "no fault: old elements then iterator items, last N kept, in order");
      }
    }
    final_drop(&b);
  }
  if (kind_at_op != F_DROP) no_leak();

#elif defined(S_CLONE)
  cb_t b; init_state(&b, 48, &CEX_start, &CEX_size);       /* the source is "the other buffer": ids 48.. */
  cb_t b0 = b;
  choose_fault(F_CLONE, F_CLONE);
  cb_t c = mir_Clone_for_CircularBuffer_clone(&b);
  panicked = UNWINDING; UNWINDING = 0; kind_at_op = FAULT_KIND; fired = fault_fired();
  no_bad_drop(); caller_objects_untouched();
  WIT(panicked, "[user] a clone panic is reachable");
  WIT(panicked && CEX_at >= 1, "[user] a clone panic after the first clone is reachable");
  PROP(b.f0 == b0.f0 && b.f1 == b0.f1, "clone leaves the source's length and front position alone");
  for (size_t i = 0; i < NN; i++) if (i < b0.f0) PROP(SLOT(&b, i).id == 48 + i, "clone leaves the source's elements alone");
  if (!panicked) {
    check_valid(&c);
    PROP(c.f0 == b0.f0, "no fault: the clone has the source's length");
    for (size_t i = 0; i < NN; i++) if (i < c.f0) PROP(SLOT(&c, i).id >= FRESH0 && SLOT(&c, i).id < IDS && CLONE_OF[SLOT(&c, i).id] == 48 + i, "no fault: element-wise clones in order");
    final_drop(&c);
  }
  caller_objects_untouched();
  no_leak();

#elif defined(S_CLONE_FROM)
  cb_t b; init_state(&b, 0, &CEX_start, &CEX_size);
  cb_t o; init_state(&o, 48, &CEX_start2, &CEX_size2);
  cb_t o0 = o;
  choose_fault(F_DROP, F_CLONE);
  mir_Clone_for_CircularBuffer_clone_from(&b, &o);
  panicked = UNWINDING; UNWINDING = 0; kind_at_op = FAULT_KIND; fired = fault_fired();
  no_bad_drop(); check_valid(&b); caller_objects_untouched();
  WIT(panicked && kind_at_op == F_CLONE, "[user] a clone panic is reachable");
  WIT(panicked && kind_at_op == F_DROP, "[drop] a destructor panic is reachable");
  PROP(o.f0 == o0.f0 && o.f1 == o0.f1, "clone_from leaves the source's length and front position alone");
  for (size_t i = 0; i < NN; i++) if (i < o0.f0) PROP(SLOT(&o, i).id == 48 + i, "clone_from leaves the source's elements alone");
  if (!panicked) {
    PROP(b.f0 == o0.f0, "no fault: destination has the source's length");
    for (size_t i = 0; i < NN; i++) if (i < b.f0) PROP(SLOT(&b, i).id >= FRESH0 && SLOT(&b, i).id < IDS && CLONE_OF[SLOT(&b, i).id] == 48 + i, "no fault: element-wise clones in order");
  }
  final_drop(&b); caller_objects_untouched();
  if (kind_at_op != F_DROP) no_leak();

#elif defined(S_EQ)
  /* C06: an element comparison panics part-way: both buffers are untouched (same capacity on both sides) */
  cb_t b; init_state(&b, 0, &CEX_start, &CEX_size);
  cb_t o; init_state(&o, 48, &CEX_start2, &CEX_size2);
  cb_t b0 = b, o0 = o;
  choose_fault(F_EQ, F_EQ);
  _Bool r = mir_PartialEq_for_CircularBuffer_eq(&b, &o);
  panicked = UNWINDING; UNWINDING = 0; kind_at_op = FAULT_KIND; fired = fault_fired();
  no_bad_drop(); check_valid(&b);
  WIT(panicked, "[user] a comparison panic is reachable");
  WIT(panicked && CEX_at >= 2, "[user] a comparison panic after two comparisons is reachable");
  WIT(!panicked && r && b0.f0 > 1 && b0.f1 + b0.f0 > NN && o0.f1 + o0.f0 > NN && b0.f1 != o0.f1, "[any] equal wrapped buffers with different splits are reachable");
  PROP(DROP_N == 0, "a comparison destroys nothing");
  PROP(b.f0 == b0.f0 && b.f1 == b0.f1 && o.f0 == o0.f0 && o.f1 == o0.f1, "a comparison leaves both buffers' length and front position alone");
  for (size_t i = 0; i < NN; i++) { if (i < b0.f0) PROP(SLOT(&b, i).id == i, "a comparison leaves the left elements alone"); if (i < o0.f0) PROP(SLOT(&o, i).id == 48 + i, "a comparison leaves the right elements alone"); }
  if (!panicked) PROP(r == (b0.f0 == o0.f0), "no fault: equal exactly when the sequences are equal (here: equal lengths)");
  final_drop(&b);

#elif defined(S_PUSH_BACK) || defined(S_PUSH_FRONT) || defined(S_TRY_PUSH_BACK) || defined(S_TRY_PUSH_FRONT) || defined(S_POP_BACK) || defined(S_POP_FRONT) || defined(S_REMOVE)
  /* C01/C02 cross-check through the second engine: no fault; result and contents against the abstract sequence */
  cb_t b; init_state(&b, 0, &CEX_start, &CEX_size);
  size_t size0 = b.f0;
  size_t a = nondet_size_t(); CEX_a = a;
  unsigned char want[NN + 2]; size_t wn = 0;          /* expected ids afterwards */
  long rdisc = 0; unsigned char rid = 0;              /* expected result: Some/Err(rid) or None/Ok */
  tok_t item; item.id = 32; LEDGER[32] = LIVE;
#if defined(S_PUSH_BACK)
  option_tok r = mir_CircularBuffer_push_back(&b, item);
  if (NN == 0) { rdisc = 1; rid = 32; }
  else if (size0 == NN) { rdisc = 1; rid = 0; for (size_t i = 1; i < size0; i++) want[wn++] = i; want[wn++] = 32; }
  else { for (size_t i = 0; i < size0; i++) want[wn++] = i; want[wn++] = 32; }
#elif defined(S_PUSH_FRONT)
  option_tok r = mir_CircularBuffer_push_front(&b, item);
  if (NN == 0) { rdisc = 1; rid = 32; }
  else if (size0 == NN) { rdisc = 1; rid = size0 - 1; want[wn++] = 32; for (size_t i = 0; i + 1 < size0; i++) want[wn++] = i; }
  else { want[wn++] = 32; for (size_t i = 0; i < size0; i++) want[wn++] = i; }
#elif defined(S_TRY_PUSH_BACK)
  result_unit_tok r = mir_CircularBuffer_try_push_back(&b, item);
  if (size0 == NN) { rdisc = 1; rid = 32; for (size_t i = 0; i < size0; i++) want[wn++] = i; }
  else { for (size_t i = 0; i < size0; i++) want[wn++] = i; want[wn++] = 32; }
#elif defined(S_TRY_PUSH_FRONT)
  result_unit_tok r = mir_CircularBuffer_try_push_front(&b, item);
  if (size0 == NN) { rdisc = 1; rid = 32; for (size_t i = 0; i < size0; i++) want[wn++] = i; }
  else { want[wn++] = 32; for (size_t i = 0; i < size0; i++) want[wn++] = i; }
#elif defined(S_POP_BACK)
  option_tok r = mir_CircularBuffer_pop_back(&b);
  if (size0 > 0) { rdisc = 1; rid = size0 - 1; for (size_t i = 0; i + 1 < size0; i++) want[wn++] = i; }
#elif defined(S_POP_FRONT)
  option_tok r = mir_CircularBuffer_pop_front(&b);
  if (size0 > 0) { rdisc = 1; rid = 0; for (size_t i = 1; i < size0; i++) want[wn++] = i; }
#else
  option_tok r = mir_CircularBuffer_remove(&b, a);
  if (a < size0) { rdisc = 1; rid = a; for (size_t i = 0; i < size0; i++) if (i != a) want[wn++] = i; }
  else { for (size_t i = 0; i < size0; i++) want[wn++] = i; }
#endif
  panicked = UNWINDING; UNWINDING = 0; fired = 0;
  PROP(!panicked, "the operation is total");
  PROP(r.disc == rdisc, "result: Some/Err exactly when the abstract sequence says so");
  if (rdisc == 1) PROP(r.v.id == rid, "result: exactly the displaced / removed / rejected element");
  PROP(DROP_N == 0, "the operation destroys nothing");
  PROP(b.f0 == wn, "length as specified");
  check_valid(&b);
  for (size_t i = 0; i < NN; i++) if (i < wn) PROP(SLOT(&b, i).id == want[i], "contents as specified, in order");
  WIT(rdisc == 1 && size0 == NN && NN > 1 && CEX_start > 0, "[any] the operation on a full, rotated buffer is reachable");
  WIT(rdisc == 0, "[any] the None / Ok case is reachable");

#elif defined(S_FROM_ARRAY)
  /* C05: destructor of a discarded element panics */
  choose_fault(F_DROP, F_DROP);
  arr_aM_tok arr; for (size_t i = 0; i < MM; i++) { arr.a[i].id = i; LEDGER[i] = LIVE; }
  cb_t r = mir_From_for_CircularBuffer_from(arr);
  panicked = UNWINDING; UNWINDING = 0; kind_at_op = FAULT_KIND; fired = fault_fired();
  no_bad_drop();
  WIT(panicked, "[drop] a destructor panic is reachable");
  if (!panicked) {
    check_valid(&r);
    size_t keep = NN < MM ? NN : MM;
    PROP(r.f0 == keep, "no fault: keeps min(N, M) elements");
    for (size_t i = 0; i < NN; i++) if (i < keep) PROP(SLOT(&r, i).id == (MM - keep) + i, "no fault: keeps the last elements in order");
    for (size_t i = 0; i < MM; i++) PROP((LEDGER[i] == DEAD) == (i < MM - keep), "no fault: exactly the discarded elements are destroyed");
    final_drop(&r);
  }
  if (kind_at_op == F_NONE) no_leak();

#elif defined(S_DRAIN_DROP)
  /* C05 (+C09 functional post-condition): Drain::drop from any state reachable by next/next_back scripts */
  cb_t b; init_state(&b, 0, &CEX_start, &CEX_size);
  choose_fault(F_DROP, F_DROP);
  st_Drain d; d.f0 = &b; d.f1 = b.f0; b.f0 = 0;
  d.f2.f0 = nondet_size_t(); d.f2.f1 = nondet_size_t(); d.f3.f0 = nondet_size_t(); d.f3.f1 = nondet_size_t();
  __CPROVER_assume(d.f2.f0 <= d.f3.f0 && d.f3.f0 <= d.f3.f1 && d.f3.f1 <= d.f2.f1 && d.f2.f1 <= d.f1);
  CEX_a = d.f2.f0; CEX_b = d.f2.f1; CEX_start2 = d.f3.f0 - d.f2.f0; CEX_size2 = d.f2.f1 - d.f3.f1;
  size_t ra = d.f2.f0, rb = d.f2.f1, ia = d.f3.f0, ib = d.f3.f1, size0 = d.f1;
  mir_Drop_for_Drain_drop(&d);
  panicked = UNWINDING; UNWINDING = 0; kind_at_op = FAULT_KIND; fired = fault_fired();
  no_bad_drop(); check_valid(&b);
  WIT(panicked, "[drop] a destructor panic (un-yielded drained element) is reachable");
  WIT(panicked && rb < size0 && ra > 0, "[drop] a destructor panic with a hole in the middle is reachable");
  WIT(!panicked && ra > 0 && rb < size0 && ia > ra, "[any] a partly consumed drain with a hole in the middle is reachable");
  for (size_t i = 0; i < NN; i++) if (i < b.f0) {
    unsigned char id = SLOT(&b, i).id;
    PROP(!(id >= ra && id < rb), "a drained element is never visible afterwards");
  }
  if (!panicked) {
    PROP(b.f0 == size0 - (rb - ra), "no fault: length after drain");
    for (size_t i = 0; i < NN; i++) if (i < b.f0) PROP(SLOT(&b, i).id == (i < ra ? i : i + (rb - ra)), "no fault: elements before the range, then elements after it, in order");
    for (size_t i = 0; i < NN; i++) if (i < size0) PROP((LEDGER[i] == DEAD) == (i >= ia && i < ib), "no fault: exactly the un-yielded drained elements are destroyed");
    dropped_ascending(0, ia, ib - ia);
  }
  final_drop(&b);
  for (size_t i = 0; i < NN; i++) if ((i >= ra && i < ia) || (i >= ib && i < rb)) PROP(LEDGER[i] == LIVE, "elements handed out by the drain are never destroyed by the buffer");

#elif defined(S_OVER_RANGE_DRAIN) || defined(S_OVER_RANGE_ITER) || defined(S_OVER_RANGE_ITERMUT)
  /* C11: bad range <=> panic, and a panicking call leaves the buffer unchanged */
  cb_t b; init_state(&b, 0, &CEX_start, &CEX_size);
  cb_t b0 = b;
  user_R_t r; r.sdisc = nondet_long(); r.edisc = nondet_long(); r.sval = nondet_size_t(); r.eval = nondet_size_t();
  __CPROVER_assume(r.sdisc >= 0 && r.sdisc <= 2 && r.edisc >= 0 && r.edisc <= 2);
  CEX_a = r.sval; CEX_b = r.eval; CEX_start2 = r.sdisc; CEX_size2 = r.edisc;
  unsigned __int128 s = r.sdisc == 0 ? r.sval : r.sdisc == 1 ? (unsigned __int128)r.sval + 1 : 0;
  unsigned __int128 e = r.edisc == 0 ? (unsigned __int128)r.eval + 1 : r.edisc == 1 ? r.eval : b.f0;
  _Bool must_panic = s > e || e > b.f0;
#if defined(S_OVER_RANGE_DRAIN)
  st_Drain d = mir_Drain_over_range(&b, r);
#elif defined(S_OVER_RANGE_ITER)
  st_Iter it = mir_Iter_over_range(&b, r);
#else
  st_IterMut it = mir_IterMut_over_range(&b, r);
#endif
  panicked = UNWINDING; UNWINDING = 0;
  PROP(panicked == must_panic, "panics if and only if the start exceeds the end or the end exceeds the length");
  WIT(panicked && s > e, "[any] panic because start > end is reachable");
  WIT(panicked && e > b0.f0 && s <= e, "[any] panic because end > len is reachable");
  WIT(panicked && r.edisc == 0 && r.eval == (size_t)-1, "[any] panic with Included(usize::MAX) is reachable");
  WIT(!panicked && s < e, "[any] a non-empty valid range is reachable");
  if (panicked) {
    PROP(b.f0 == b0.f0 && b.f1 == b0.f1, "a panicking call leaves length and front position unchanged");
    for (size_t i = 0; i < NN; i++) if (i < b0.f0) PROP(SLOT(&b, i).id == SLOT(&b0, i).id, "a panicking call leaves the contents unchanged");
  } else {
#if defined(S_OVER_RANGE_DRAIN)
    PROP(b.f0 == 0 && d.f1 == b0.f0 && d.f2.f0 == (size_t)s && d.f2.f1 == (size_t)e && d.f3.f0 == (size_t)s && d.f3.f1 == (size_t)e, "valid range: the drain covers exactly start..end");
#else
    PROP(it.f0.len + it.f1.len == (size_t)(e - s), "valid range: the iterator selects end-start elements");
    PROP(b.f0 == b0.f0 && b.f1 == b0.f1, "creating an iterator leaves the buffer unchanged");
    if (s < e) PROP((it.f0.len ? it.f0.ptr : it.f1.ptr) == &SLOT(&b, (size_t)s), "valid range: the iterator starts at position start");
#endif
  }

#elif defined(S_SWAP) || defined(S_INDEX) || defined(S_INDEX_MUT)
  cb_t b; init_state(&b, 0, &CEX_start, &CEX_size);
  cb_t b0 = b;
  size_t i = nondet_size_t(), j = nondet_size_t(); CEX_a = i; CEX_b = j;
  _Bool must_panic;
#if defined(S_INDEX)
  tok_t *r = mir_Index_for_CircularBuffer_index(&b, i); must_panic = i >= b0.f0;
#elif defined(S_INDEX_MUT)
  tok_t *r = mir_IndexMut_for_CircularBuffer_index_mut(&b, i); must_panic = i >= b0.f0;
#else
  mir_CircularBuffer_swap(&b, i, j); must_panic = i >= b0.f0 || j >= b0.f0;
#endif
  panicked = UNWINDING; UNWINDING = 0;
  PROP(panicked == must_panic, "panics if and only if an index is out of bounds");
  WIT(panicked, "[any] an out-of-bounds panic is reachable");
  WIT(!panicked && b0.f0 > 1, "[any] an in-bounds call is reachable");
  PROP(b.f0 == b0.f0 && b.f1 == b0.f1, "length and front position unchanged");
  for (size_t k = 0; k < NN; k++) if (k < b0.f0) {
    unsigned char want = SLOT(&b0, k).id;
#if defined(S_SWAP)
    if (!panicked) { if (k == i) want = SLOT(&b0, j).id; else if (k == j) want = SLOT(&b0, i).id; }
#endif
    PROP(SLOT(&b, k).id == want, "contents as specified (unchanged after a panic)");
  }
#if !defined(S_SWAP)
  if (!panicked) PROP(r == &SLOT(&b, i), "indexing returns the element at position i");
#endif

#elif defined(S_ADD_MOD) || defined(S_SUB_MOD)
  size_t x = nondet_size_t(), y = nondet_size_t(), m = nondet_size_t();
  __CPROVER_assume(m > 0 && x <= m && y <= m);
  CEX_a = x; CEX_b = y; CEX_start = m;
#if defined(S_SUB_MOD)
  size_t r = mir_sub_mod(x, y, m);
  unsigned __int128 w = (unsigned __int128)x + m - y;      /* (x - y) mod m == (x + m - y) mod m */
#else
  size_t r = mir_add_mod(x, y, m);
  unsigned __int128 w = (unsigned __int128)x + y;
#endif
  unsigned __int128 mm = m;
  panicked = UNWINDING;
  PROP(!UNWINDING, "no overflow / division panic for any 64-bit x, y <= m, m > 0");
  /* r == w mod m, stated without a 128-bit division: w <= 2m, so the quotient is 0, 1 or 2 */
  PROP(r < m && (w == r || w == mm + r || w == mm + mm + r), "result equals the modular sum/difference computed in 128 bits");
#ifdef SKIP_mir_add_mod
  PROP(ADD_MOD_PRE_OK, "sub_mod calls add_mod within add_mod's precondition (m > 0, x <= m, y <= m)");
#endif
  WIT(x + y < x, "[any] x + y overflowing the machine word is reachable");
  WIT(m > ((size_t)1 << 63) && x == m, "[any] m above 2^63 with x == m is reachable");
#else
#error "no scenario selected"
#endif

#if !defined(S_OVER_RANGE_DRAIN) && !defined(S_OVER_RANGE_ITER) && !defined(S_OVER_RANGE_ITERMUT) && !defined(S_SWAP) && !defined(S_INDEX) && !defined(S_INDEX_MUT) && !defined(S_ADD_MOD) && !defined(S_SUB_MOD)
  PROP(!panicked || fired, "the operation panics only if the injected fault fired");
#endif
  PROP(!ABORTED, "unreachable: abort paths are cut");
  return 0;
}
