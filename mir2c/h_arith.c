#include "gen_all.c"
size_t nondet_size_t(void); _Bool nondet_bool(void);
int main() {
  size_t x = nondet_size_t(), y = nondet_size_t(), m = nondet_size_t();
  __CPROVER_assume(m > 0 && x <= m && y <= m);
#ifdef SUB
  size_t r = mir_sub_mod(x, y, m);
  unsigned __int128 w = ((unsigned __int128)x + m - y) % m;
#else
  size_t r = mir_add_mod(x, y, m);
  unsigned __int128 w = ((unsigned __int128)x + y) % m;
#endif
  __CPROVER_assert(!UNWINDING, "no overflow / division panic");
  __CPROVER_assert(r == (size_t)w, "modular arithmetic spec");
}
