/* mir2c runtime, part 1: base types (included before the generated typedefs) */
#include <stddef.h>
#include <stdint.h>
#ifndef NN
#define NN 4
#endif
#ifndef MM
#define MM 4
#endif
typedef struct { unsigned char id; } tok_t;
typedef struct { char u; } unit_t;
typedef struct { char o; } opaque_t;
typedef struct { long disc; } ordering_t;
typedef struct { size_t f0, f1; } range_t;
typedef struct { size_t f0; } rangeto_t;
typedef struct { size_t f0; } rangefrom_t;
typedef struct { char z; } rangefull_t;
/* user (generic-parameter) objects that do not depend on generated types */
typedef struct { long sdisc; size_t sval; long edisc; size_t eval; } user_R_t;      /* R: RangeBounds<usize> */
typedef struct { unsigned char unused; } user_F_t;                                  /* F: FnMut() -> T */
