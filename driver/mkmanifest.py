#!/usr/bin/env python3
"""Write /verif/MANIFEST.json from the property table (kept valid at all times)."""
import json, os, sys
HERE = os.path.dirname(os.path.abspath(__file__))
sys.path.insert(0, HERE)
import props as P

READY = sys.argv[1:] if len(sys.argv) > 1 else []

E1 = 'Kani 0.68 proof harnesses over the compiled crate (CBMC 6.11 / CaDiCaL), counterexamples replayed natively'
E2 = 'rustc MIR dump -> mir2c (C with explicit unwind edges) -> CBMC, counterexamples replayed natively with real unwinding'

TEXT = {
    'C01': ('E1+E2', 'bounded model checking of the real code: one operation from every invariant state (all front positions x lengths x garbage bytes) with unconstrained arguments, return value and contents compared with a reference deque; closure probe makes one step inductive over histories. Decided by the SAT solver for N <= 4 (quick) / 6 (thorough).', 'symbolic execution of the compiled crate (Kani/CBMC) vs reference model'),
    'C02': ('E1+E2', 'bounded model checking: push_*/try_push_* from every invariant state; identity of the returned/stored element and absence of destructor runs asserted; N = 0 included.', 'symbolic execution (Kani/CBMC) with identity tokens'),
    'C03': ('E1', 'bounded model checking: ownership conservation (every created object in exactly one place: buffer, caller, destroyed once) after each operation and after the final drop, for all layouts/garbage/arguments and all consumption scripts of drains and owning iterators.', 'symbolic execution (Kani/CBMC) with ownership ledger'),
    'C04': ('E1+E2', 'bounded model checking of non-interference: two buffers with equal contents but independent layout and independent solver-chosen bytes in unoccupied slots; every observation must coincide and every visible element must be live; Eq/Hash/Debug harnesses with symbolic garbage, Debug of a partly consumed Drain; after a caught panic the same liveness is decided on the MIR with its unwind edges.', 'two-run non-interference query (Kani/CBMC) + MIR-level liveness after panics'),
    'C05': ('E2', 'bounded model checking of the MIR with its unwind edges: symbolic state, argument and index of the panicking destructor call; post-condition at the modelled catch_unwind (no second drop, valid live distinct elements) and after the translated buffer destructor. Encoding validated against the real crate on thousands of concrete panicking runs per run.', 'MIR -> C with explicit unwinding -> CBMC, symbolic crash point'),
    'C06': ('E2', 'as C05 with the fault in Clone / closure / iterator, plus the no-leak obligation; Guard::drop and other cleanup-only code is executed on the unwind edge.', 'MIR -> C with explicit unwinding -> CBMC, symbolic crash point'),
    'C07': ('E1', 'bounded model checking: all accessors compared by element identity and address at a symbolic position and at every position; mutable accessors chosen symbolically, write-through effect compared with the model.', 'symbolic execution (Kani/CBMC), address comparison'),
    'C08': ('E1', 'bounded model checking: symbolic RangeBounds (all variants, unconstrained values) and symbolic next/next_back/len/clone scripts for iter, iter_mut, range, range_mut, into_iter.', 'symbolic execution (Kani/CBMC) with symbolic scripts'),
    'C09': ('E1+E2', 'bounded model checking: symbolic range and consumption script, drain dropped after any prefix; contents, order and destructor counts compared with the model; N = 0 included.  Second engine: the translated Drain::drop from every Drain state reachable by such scripts (no fault), same post-condition.', 'symbolic execution (Kani/CBMC) with symbolic scripts + MIR-level cross-check'),
    'C10': ('E1', 'bounded model checking of the stated relation (not of current behaviour): after mem::forget of a drain at a symbolic point the buffer holds live, distinct, original, not-handed-out elements; one further symbolic operation and the final drop never destroy anything twice.', 'symbolic execution (Kani/CBMC)'),
    'C11': ('E1+E2', 'E1: under the documented panic condition the call never returns and no memory-safety check fails; under its negation (and for every other method with unconstrained arguments) no check fails and all loops terminate within the unwinding bound. E2: panics iff documented and the buffer is bit-for-bit unchanged at the catch.', 'Kani unreachability/totality queries + MIR-level unchanged-after-panic'),
    'C12': ('E1', 'bounded model checking: new/default/boxed, From<[T; M]> for M in 0..=2N+1, from_iter, clone, clone_from (symbolic destination), to_vec, into_iter; identity of clones vs originals and independence under either drop order.', 'symbolic execution (Kani/CBMC)'),
    'C13': ('E1', 'bounded model checking: two byte buffers of capacities (N, M) with independent layouts and fully symbolic contents; ==, comparison with slices/arrays/refs, partial_cmp, cmp, recorded Hash stream, recorded Debug stream for a fixed list of format specs.', 'symbolic execution (Kani/CBMC), all content pairs'),
    'C14': ('E1', 'bounded model checking: symbolic sequences of write/read/fill_buf/consume/flush on byte buffers against a byte model; N = 0 included.', 'symbolic execution (Kani/CBMC)'),
    'C16': ('E1', 'the C14 scenario instantiated through embedded_io and embedded_io_async (polled once, must be Ready) in the three feature configurations, against the same byte model, plus pairwise against std::io on twin buffers.', 'symbolic execution (Kani/CBMC) per feature configuration'),
    'C17': ('E1', 'unreachability of the allocator entry points (stubbed to panic) for all scenario families, in the three configurations {no default features, alloc, std}; sensitivity witnesses (to_vec, boxed) must hit the stub; Kani having to compile each configuration decides the build clause.', 'allocator-stub unreachability (Kani/CBMC)'),
    'C18': ('E1+E2', 'the functional scenario families re-run with the unstable feature against the same oracle, and the panic scenarios on the MIR dumped with the feature.', 'second configuration through both engines'),
    'C19': ('E1+E2', 'E1: ZST buffers at capacities up to usize::MAX, front positions just below the capacity, one symbolic operation (including Debug of the buffer and of a partly consumed Drain); E2: add_mod (and sub_mod in the thorough tier) for all 64-bit inputs against 128-bit arithmetic.', 'Kani at extreme const capacities + full-width arithmetic query'),
    'C20': ('E1', 'bounded model checking: addresses of surviving elements (by identity) before/after each operation; relocation counts bounded as documented.', 'symbolic execution (Kani/CBMC), address comparison'),
}

NOTE = 'Bounded: capacities and lengths as stated in the evidence; 1-byte element tokens and u8; exactly one injected panic (E2); libcore callees as modelled by Kani (E1, ptr_rotate and allocator entry points stubbed where stated) or by the listed runtime models (E2, validated differentially against the real crate). Not a proof for all N.'


def main():
    checks = []
    for pid in sorted(P.PROPS):
        if pid not in READY:
            continue
        eng, text, tech = TEXT[pid]
        checks.append(dict(
            property_id=pid,
            quick_cmd='./run.sh %s quick' % pid,
            thorough_cmd='./run.sh %s thorough' % pid,
            evidence_file='evidence/%s.json' % pid,
            replay_cmd_template='./run.sh --replay {path}',
            engine=eng,
            level_claimed=dict(category='model_checking', text=text, design_ref='DESIGN.md §4 ' + pid),
            level_note=NOTE,
            technique=tech,
        ))
    na = [dict(property_id='C15', reason='borrow/variance/const/auto-trait contracts are verdicts of the type checker on client programs; there is no execution to make symbolic and nothing for a solver to decide (DESIGN §6)')]
    for pid in sorted(P.PROPS):
        if pid not in READY:
            na.append(dict(property_id=pid, reason='check under construction in this round; not claimed until it has run clean on the unchanged tree'))
    m = dict(
        version=1,
        setup_cmd='./setup.sh',
        hooks=dict(guard='none', enable='no source hooks: the Kani harness crate uses the public API of /repo as a path dependency; the MIR engine reads rustc\'s MIR dump of /repo/src',
                   baseline_off_cmd='cd /repo && cargo test --workspace --no-fail-fast --offline', source_commits=[], add_only=True),
        engines=[dict(name='E1', path='harness/', serves_properties=[c['property_id'] for c in checks if 'E1' in c['engine']], kind_free_text=E1),
                 dict(name='E2', path='mir2c/', serves_properties=[c['property_id'] for c in checks if 'E2' in c['engine']], kind_free_text=E2),
                 dict(name='R', path='harness/src/bin/replay.rs', serves_properties=[c['property_id'] for c in checks], kind_free_text='native replayer (dev and release): confirms every solver counterexample before a VIOLATION line is printed')],
        checks=checks,
        notes='exit 0 = held within the stated bounds; exit 1 + VIOLATION line = counterexample reproduced natively; exit 2 = broken or undecided (never a pass). See DESIGN.md.',
        not_applicable=na,
    )
    json.dump(m, open(os.path.join(HERE, '..', 'MANIFEST.json'), 'w'), indent=1)
    print('manifest: %d checks, %d not applicable' % (len(checks), len(na)))


if __name__ == '__main__':
    main()
