"""Per-property configuration of the driver: which engines/configurations decide it, the stated
bounds, stubs and assumptions (all of which are copied into the evidence file)."""

E1_BOUNDS = {
    'quick': dict(engine='Kani 0.68 / CBMC 6.11 (CaDiCaL)', capacities_N=[0, 1, 2, 3, 4],
                  element_types=['Tok (1 byte, counting destructor, identity-preserving clone)', 'u8'],
                  pre_state='every front position < N x every length <= N x every byte pattern in the unoccupied slots',
                  arguments='unconstrained usize unless stated; slices/iterators up to 2N+1 elements',
                  unwinding='per-harness literal bound derived from N, unwinding assertions ON'),
    'thorough': dict(engine='Kani 0.68 / CBMC 6.11 (CaDiCaL)', capacities_N=[0, 1, 2, 3, 4, 5, 6],
                     element_types=['Tok (1 byte, counting destructor, identity-preserving clone)', 'u8'],
                     pre_state='every front position < N x every length <= N x every byte pattern in the unoccupied slots',
                     arguments='unconstrained usize unless stated; slices/iterators up to 2N+1 elements',
                     unwinding='per-harness literal bound derived from N, unwinding assertions ON'),
}

ROT_STUB = 'core::slice::rotate::ptr_rotate -> 12-line loop model of its contract (harnesses reaching make_contiguous only)'

COMMON_ASSUME = [
    'capacities above the stated bound are outside the claim (informal argument in DESIGN §3 why small N realise every wrap-around shape)',
    'element types are 1-byte tokens / u8 (Kani 0.68 mis-models ptr::copy with symbolic count for larger elements, DESIGN §2.1)',
    'libcore/liballoc as modelled by Kani; no concurrency (the type has no shared-mutation API)',
    'one step from an arbitrary invariant state + closure probe stands for all finite histories (DESIGN §3)',
]

PROPS = {}

QN5 = [0, 1, 2, 3, 4]
TN5 = [0, 1, 2, 3, 4, 5]
FA_Q = [(0, 1), (0, 2), (1, 0), (1, 1), (1, 3), (2, 1), (2, 3), (2, 5), (3, 2), (3, 4), (3, 7), (4, 6)]
FA_T = [(n, m) for n in range(0, 5) for m in range(0, 2 * n + 2)] + [(5, 3), (5, 7), (5, 11)]

E2_BOUNDS = dict(engine='rustc nightly -Zunpretty=mir -> mir2c -> CBMC 6.11 (SAT)', element='tok_t (1-byte id) with ledger; generic parameters T, U',
                 pre_state='every (start, size) of the invariant; unoccupied slots nondeterministic',
                 fault='exactly one injected panic: symbolic kind and symbolic event index, or none',
                 arguments='unconstrained; slices/iterators up to 2N+1 elements', unwinding='--unwind max(3N+8, 18) --unwinding-assertions')


def e2_jobs(scens_quick, scens_thorough=None):
    return dict(quick=scens_quick, thorough=scens_thorough or scens_quick)


C05_SCENS = ['TRUNCATE_BACK', 'TRUNCATE_FRONT', 'CLEAR', 'BUFFER_DROP', 'FILL', 'FILL_WITH', 'EXTEND_FROM_SLICE', 'EXTEND_ITER',
             'FROM_ITER', 'CLONE_FROM', 'DRAIN_DROP']
C06_SCENS = ['FILL', 'FILL_SPARE', 'FILL_WITH', 'FILL_SPARE_WITH', 'EXTEND_FROM_SLICE', 'EXTEND_ITER', 'FROM_ITER', 'CLONE', 'CLONE_FROM', 'EQ']
C11_SCENS = ['OVER_RANGE_DRAIN', 'OVER_RANGE_ITER', 'OVER_RANGE_ITERMUT', 'SWAP', 'INDEX', 'INDEX_MUT']


def prop(pid, title, **kw):
    d = dict(title=title, e1_configs=['default'], e2=[], bounds=E1_BOUNDS, stubs=[], assumptions=list(COMMON_ASSUME),
             code_failures_count=True)
    d.update(kw)
    PROPS[pid] = d


C01_E2 = ['PUSH_BACK', 'PUSH_FRONT', 'TRY_PUSH_BACK', 'TRY_PUSH_FRONT', 'POP_BACK', 'POP_FRONT', 'REMOVE']
prop('C01', 'every mutator implements bounded-deque semantics', stubs=[ROT_STUB], e1_configs_thorough=['plain'], bounds=dict(E1=E1_BOUNDS, E2=E2_BOUNDS),
     # second engine on the single-element operations: the same statements about the same functions from a different compilation (MIR -> C)
     e2=[dict(tag='std', features=['std', 'alloc'], auxiliary=True, jobs=e2_jobs([(s, 3, QN5) for s in C01_E2], [(s, 3, TN5) for s in C01_E2]))])
prop('C02', 'single-element insertion never loses an element', seed_extras=True, bounds=dict(E1=E1_BOUNDS, E2=E2_BOUNDS),
     e2=[dict(tag='std', features=['std', 'alloc'], auxiliary=True, jobs=e2_jobs([(s, 3, QN5) for s in C01_E2[:4]], [(s, 3, TN5) for s in C01_E2[:4]]))])
prop('C03', 'every element dropped exactly once, never while reachable', thorough_reach=False, stubs=[ROT_STUB], code_failures_count=False)
C04_E2 = ['TRUNCATE_BACK', 'TRUNCATE_FRONT', 'EXTEND_FROM_SLICE', 'CLONE_FROM', 'DRAIN_DROP']
prop('C04', 'unoccupied storage is never observed', thorough_reach=False, code_failures_count=False, jobs=12, stubs=[ROT_STUB],
     bounds=dict(E1=E1_BOUNDS, E2=E2_BOUNDS),
     # after a caught panic, too, no operation may expose or destroy a slot that holds no live element: the E2
     # post-condition "visible element is live" / "no destructor on a dead slot" at reduced capacities
     e2=[dict(tag='std', features=['std', 'alloc'], jobs=e2_jobs([(s, 0, [2, 3]) for s in C04_E2], [(s, 0, [1, 2, 3, 4]) for s in C04_E2 + ['CLEAR', 'FILL_WITH']]))])
prop('C05', 'panicking destructor: no second drop, buffer stays valid', e1_configs=[], bounds=E2_BOUNDS,
     e2=[dict(tag='std', features=['std', 'alloc'],
              jobs=e2_jobs([(s, 1, QN5) for s in C05_SCENS] + [('FROM_ARRAY', 1, FA_Q)],
                           [(s, 1, TN5) for s in C05_SCENS] + [('FROM_ARRAY', 1, FA_T)]))])
prop('C06', 'panic in user code leaves a valid buffer, nothing leaked', e1_configs=[], bounds=E2_BOUNDS,
     e2=[dict(tag='std', features=['std', 'alloc'],
              jobs=e2_jobs([(s, 2, QN5) for s in C06_SCENS], [(s, 2, TN5) for s in C06_SCENS]))])
prop('C07', 'all views agree; mutable views alias exactly those elements', seed_extras=True, e1_configs_thorough=['plain'], stubs=[ROT_STUB])
prop('C08', 'iterators obey the double-ended exact-size protocol', seed_extras=True, e1_configs_thorough=['plain'])
prop('C09', 'drain removes exactly the range, keeps the rest in order', bounds=dict(E1=E1_BOUNDS, E2=E2_BOUNDS), e1_configs_thorough=['plain'],
     e2=[dict(tag='std', features=['std', 'alloc'], auxiliary=True, jobs=e2_jobs([('DRAIN_DROP', 3, QN5)], [('DRAIN_DROP', 3, TN5)]))])
prop('C10', 'leaking a drain is safe', seed_extras=True, e1_configs=['default', 'plain'])
prop('C11', 'panics exactly when documented, otherwise total', thorough_reach=False, bounds=dict(E1=E1_BOUNDS, E2=E2_BOUNDS),
     e2=[dict(tag='std', features=['std', 'alloc'], jobs=e2_jobs([(s, 0, QN5) for s in C11_SCENS], [(s, 0, TN5) for s in C11_SCENS]))])
prop('C12', 'constructors and conversions', seed_extras=True)
prop('C13', 'Eq/Ord/Hash/Debug depend only on logical contents', seed_extras=True)
prop('C14', 'byte-stream I/O', seed_extras=True)
prop('C16', 'embedded-io(-async) == std::io', e1_configs=['eio', 'eio-async', 'eio-both'], parallel_configs=True)
prop('C17', 'no operation allocates; builds without std/alloc', thorough_reach=False, e1_configs=['nodefault', 'alloc', 'default'], parallel_configs=True, only_desc='ALLOCATION', build_clause=True,
     stubs=['alloc::alloc::{alloc, alloc_zeroed, realloc} -> panic!("ALLOCATION")', ROT_STUB])
C18_N = [0, 3]
C18_E2 = [(s, 0, C18_N) for s in ('TRUNCATE_BACK', 'EXTEND_FROM_SLICE', 'CLONE_FROM', 'DRAIN_DROP', 'OVER_RANGE_ITER', 'OVER_RANGE_ITERMUT', 'EQ')] + [('FROM_ARRAY', 1, [(0, 2), (3, 5)])]
C18_E2_T = [(s, 0, [0, 1, 2, 3, 4]) for s in sorted(set(C05_SCENS + C06_SCENS + C11_SCENS))] + [('FROM_ARRAY', 1, FA_Q)]
prop('C18', 'unstable feature does not change behaviour', thorough_reach=False, e1_configs=[], differential=('default', 'unstable'), stubs=[ROT_STUB],
     bounds=dict(E1=E1_BOUNDS, E2=E2_BOUNDS, capacities_quick=C18_N),
     e2=[dict(tag='unstable', features=['std', 'alloc', 'unstable'], order=True, baseline=dict(tag='std', features=['std', 'alloc'], baseline=None),
              jobs=dict(quick=C18_E2, thorough=C18_E2_T))])
prop('C19', 'zero-sized elements and extreme capacities', bounds=dict(E1=E1_BOUNDS, E2='add_mod/sub_mod: all 64-bit x, y <= m, m > 0 (no bound on N)'),
     e2=[dict(tag='std', features=['std', 'alloc'], unwind=lambda n, m: 4, timeout=dict(quick=900, thorough=3600),
              jobs=dict(quick=[('ADD_MOD', 0, [1]), ('SUB_MOD', 9, [1]), ('SUB_MOD', 0, [1])], thorough=[('ADD_MOD', 0, [1]), ('SUB_MOD', 9, [1]), ('SUB_MOD', 0, [1])]))])
prop('C20', 'constant-time operations move O(1) elements', seed_extras=True, e1_configs_thorough=['plain'], stubs=[ROT_STUB], code_failures_count=False)
