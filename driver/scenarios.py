"""Table of E1 (Kani) harness instances: which scenario function, for which property, at which
capacities, with which unwind bound, stubs and cargo features.  gen.py turns it into
harness/src/generated.rs; verif.py uses it to select harnesses and to describe bounds."""

QN = [0, 1, 2, 3, 4]          # quick capacities
TN = [5, 6]                   # added by the thorough tier

ROT = 'core::slice::rotate::ptr_rotate=crate::stubs::model_ptr_rotate'


class Scen:
    def __init__(self, mod, fn, props, unwind, qn=None, tn=None, stubs=(), feat=None, pairs=None,
                 mask=None, expect_fail=None, extra=None, configs=None):
        self.mod, self.fn, self.props = mod, fn, props
        self.unwind = unwind            # function of N (or of (N, M))
        self.qn = QN if qn is None else qn
        self.tn = TN if tn is None else tn
        self.stubs = list(stubs)
        self.feat = feat                # cfg feature expression of the harness crate, or None
        self.pairs = pairs              # for two-capacity scenarios: (quick pairs, thorough pairs)
        self.mask = mask                # override of the assertion mask (default: the property itself)
        self.expect_fail = expect_fail  # sensitivity witness: substring of the one check that must fail
        self.extra = extra or {}
        self.configs = configs or ['default', 'plain']


def U(a, b):
    return lambda n: a * n + b


SCENARIOS = []


def add(*a, **k):
    SCENARIOS.append(Scen(*a, **k))


# ---------------------------------------------------------------- mutators (s_mut)
NOALLOC = ['alloc::alloc::alloc=crate::stubs::no_alloc', 'alloc::alloc::alloc_zeroed=crate::stubs::no_alloc',
           'alloc::alloc::realloc=crate::stubs::no_realloc']

for fn in ('push_back', 'push_front', 'try_push_back', 'try_push_front'):
    add('s_mut', fn, ['C01', 'C02', 'C03', 'C11', 'C20'], U(1, 4))
for fn in ('pop_back', 'pop_front', 'remove', 'swap', 'swap_remove_back', 'swap_remove_front',
           'truncate_back', 'truncate_front'):
    add('s_mut', fn, ['C01', 'C03', 'C11', 'C20'], U(1, 4))
add('s_mut', 'clear', ['C01', 'C03', 'C11'], U(1, 4))
add('s_mut', 'extend_from_slice', ['C01', 'C03', 'C11'], lambda n: max(2 * n + 4, 15))
add('s_mut', 'extend', ['C01', 'C03', 'C11', 'C12'], U(2, 4))
add('s_mut', 'extend_ref', ['C01', 'C11'], U(2, 4))
for fn in ('fill', 'fill_spare', 'fill_with', 'fill_spare_with'):
    add('s_mut', fn, ['C01', 'C03', 'C11'], U(1, 4))
add('s_mut', 'make_contiguous', ['C01', 'C03', 'C07', 'C11', 'C20'], U(1, 4), stubs=[ROT])
add('s_mut', 'two_step', ['C01'], U(1, 5), qn=[], tn=[1, 2, 3])

# ---------------------------------------------------------------- views (s_view)
add('s_view', 'views', ['C07', 'C11'], U(1, 4))
add('s_view', 'view_to_vec', ['C07', 'C12'], U(1, 4), feat='feature = "alloc"')
add('s_view', 'view_mut', ['C01', 'C07', 'C11'], U(1, 4))
add('s_view', 'view_mut_distinct', ['C07'], U(1, 4))

# ---------------------------------------------------------------- iterators (s_iter)
add('s_iter', 'iter_script', ['C08', 'C11'], U(1, 5))
add('s_iter', 'iter_mut_script', ['C08', 'C11'], U(1, 5))
add('s_iter', 'into_iter_script', ['C03', 'C08', 'C11', 'C12'], U(1, 5))
add('s_iter', 'iter_adaptors', ['C08'], U(1, 4), qn=[0, 1, 2, 3], tn=[4, 5])
add('s_iter', 'iter_default', ['C08'], U(0, 2), qn=[1], tn=[])

# ---------------------------------------------------------------- drain (s_drain)
add('s_drain', 'drain', ['C01', 'C03', 'C09', 'C11', 'C20'], U(1, 4))
add('s_drain', 'drain_adaptors', ['C03', 'C09'], lambda n, k: n + 4, pairs=([(n, k) for n in (1, 2, 3) for k in range(4)], [(4, k) for k in range(4)]))
add('s_drain', 'drain_forget', ['C10'], U(1, 4))
add('s_drain', 'drain_forget_plain', ['C10'], U(1, 4))
add('s_drain', 'drain_debug', ['C09', 'C04'], U(1, 4), qn=[0, 1, 3], tn=[4])

# ---------------------------------------------------------------- documented panics (s_panic)
for fn in ('range_must_panic', 'range_mut_must_panic', 'drain_must_panic', 'swap_must_panic',
           'index_must_panic', 'index_mut_must_panic'):
    add('s_panic', fn, ['C11'], U(1, 4), extra=dict(expect_panic=True))
add('s_panic', 'total_accessors', ['C11'], U(1, 4))

# ---------------------------------------------------------------- constructors (s_ctor)
add('s_ctor', 'ctor_new', ['C12'], U(1, 4))
add('s_ctor', 'ctor_boxed', ['C12'], U(1, 4), feat='feature = "alloc"', qn=[0, 2], tn=[4])
add('s_ctor', 'from_iter', ['C03', 'C12'], U(2, 4))
add('s_ctor', 'clone_buf', ['C12'], U(1, 4))
add('s_ctor', 'clone_from', ['C01', 'C03', 'C12'], U(1, 4))
add('s_ctor', 'into_iter_all', ['C12'], U(1, 4))
FA_Q = [(n, m) for n in (0, 1, 2, 3) for m in range(0, 2 * n + 2)]
FA_T = [(4, m) for m in range(0, 10)]
add('s_ctor', 'from_array', ['C03', 'C12'], lambda n, m: max(n, m) + 4, pairs=(FA_Q, FA_T))

# ---------------------------------------------------------------- comparisons, hashing, Debug (s_cmp)
EQ_Q = [(n, m) for n in range(0, 4) for m in range(0, 4)]
EQ_T = [(n, m) for n in range(0, 5) for m in range(0, 5) if n == 4 or m == 4]
add('s_cmp', 'eq_buffers', ['C13', 'C04'], lambda n, m: max(n, m) + 4, pairs=(EQ_Q, EQ_T))
add('s_cmp', 'ord_buffers', ['C13'], U(1, 4), qn=[0, 1, 2, 3], tn=[4])
SL_Q = [(n, k) for n in range(0, 4) for k in (0, 1, 3)]
SL_T = [(n, k) for n in (2, 4) for k in (2, 4)]
add('s_cmp', 'eq_slices', ['C13', 'C04'], lambda n, k: max(n, k) + 4, pairs=(SL_Q, SL_T))
add('s_cmp', 'hash_layout', ['C13', 'C04'], U(1, 5), qn=[0, 1, 2, 3], tn=[4])
DBG_Q = [(n, sp) for n in (0, 1, 2, 3) for sp in (0, 1, 2, 3)]
DBG_T = [(4, sp) for sp in (0, 1, 2, 3)]   # specs 4, 5 ({:#?}, {:+#010?}) exceed 300 s / 16 GB: PadAdapter's line splitting; outside the bound
add('s_cmp', 'debug_fmt', ['C13', 'C07', 'C04'], lambda n, sp: 19, pairs=(DBG_Q, DBG_T))

# ---------------------------------------------------------------- byte-stream I/O (s_io)
IO_Q = [(n, 1) for n in (0, 1, 2, 3, 4)]          # one step from any state (inductive, like C01)
IO_T = [(n, 2) for n in (0, 1, 2, 3)] + [(5, 1)]   # explicit two-step sequences as a cross-check
add('s_io', 'io_std', ['C14', 'C11'], lambda n, k: 2 * n + 5, pairs=(IO_Q, IO_T), feat='feature = "std"')
IO16_Q = [(n, 1) for n in (0, 1, 2, 3)]
IO16_T = [(4, 1)] + [(n, 2) for n in (0, 1, 2)]
add('s_io', 'io_eio', ['C16'], lambda n, k: 2 * n + 5, pairs=(IO16_Q, IO16_T), feat='feature = "eio"', configs=['eio'])
add('s_io', 'io_eio_async', ['C16'], lambda n, k: 2 * n + 5, pairs=(IO16_Q, IO16_T), feat='feature = "eio-async"', configs=['eio-async'])
# both features together (the ErrorType import differs): the same scenarios at two capacities
add('s_io', 'io_eio', ['C16'], lambda n, k: 2 * n + 5, pairs=([(0, 1), (2, 1)], [(3, 1)]), feat='feature = "eio"', configs=['eio-both'])
add('s_io', 'io_eio_async', ['C16'], lambda n, k: 2 * n + 5, pairs=([(0, 1), (2, 1)], [(3, 1)]), feat='feature = "eio-async"', configs=['eio-both'])
add('s_io', 'io_pair_eio', ['C16'], lambda n: 2 * n + 5, qn=[0, 1, 2], tn=[3, 4], feat='all(feature = "eio", feature = "std")',
    configs=['eio'])

# ---------------------------------------------------------------- ZST / extreme capacities (s_zst)
HUGE = ['{ usize::MAX }', '{ usize::MAX - 1 }', '{ (1usize << 63) + 1 }', '{ 1usize << 63 }', '{ (1usize << 63) - 1 }',
        '{ (1usize << 32) + 1 }']
HUGE_NAMES = ['max', 'max_m1', 'p63_p1', 'p63', 'p63_m1', 'p32_p1']
# groups 5 (clone_from) and 6 (From<[Z; 2]>) move a whole `[Z; N]` by value, which CBMC 6.11 cannot encode for N >= 2^63
# (boolbv_width invariant): they run at the capacities below 2^63 only
ZST_PAIRS = [(h, g) for h in HUGE for g in (0, 1, 2, 3, 4, 7)] + [(h, g) for h in HUGE[4:] for g in (5, 6)]
add('s_zst', 'zst_op', ['C19'], lambda n, g: 9, pairs=(ZST_PAIRS, []))
add('s_zst', 'zst_cmp', ['C19'], lambda n: 9, qn=HUGE[:3], tn=HUGE[3:])

# ---------------------------------------------------------------- two buffers (s_two)
TWO_Q = [(1, op) for op in range(20)] + [(2, op) for op in range(13)]
TWO_T = [(2, op) for op in range(13, 20)] + [(3, op) for op in range(13)]
add('s_two', 'two_buffers', ['C04'], lambda n, g: (n + 4 if g not in (13,) else 10), pairs=(TWO_Q, TWO_T), stubs=[ROT])

def natural(fn):
    """the unwind formula under which the scenario was first registered"""
    for sc in SCENARIOS:
        if sc.fn == fn and sc.pairs is None:
            return sc.unwind
    raise KeyError(fn)


# ---------------------------------------------------------------- C17: no allocation (allocator entry points stubbed to panic)
C17_CFG = ['nodefault', 'alloc', 'default']
C17_N = [3]
for fn in ('push_back', 'push_front', 'try_push_back', 'try_push_front', 'pop_back', 'pop_front', 'remove', 'swap',
           'swap_remove_back', 'swap_remove_front', 'truncate_back', 'truncate_front', 'clear', 'extend', 'fill', 'fill_spare',
           'fill_with', 'fill_spare_with'):
    add('s_mut', fn, ['C17'], natural(fn), qn=C17_N, tn=[0, 1, 4], stubs=NOALLOC, configs=C17_CFG)
add('s_mut', 'extend_from_slice', ['C17'], lambda n: max(2 * n + 4, 15), qn=C17_N, tn=[0, 1, 4], stubs=NOALLOC, configs=C17_CFG)
add('s_mut', 'make_contiguous', ['C17'], U(1, 4), qn=C17_N, tn=[0, 1, 4], stubs=NOALLOC + [ROT], configs=C17_CFG)
for mod, fn in (('s_view', 'views'), ('s_view', 'view_mut'), ('s_view', 'view_mut_distinct'), ('s_iter', 'iter_script'),
                ('s_iter', 'iter_mut_script'), ('s_iter', 'into_iter_script'), ('s_drain', 'drain'), ('s_drain', 'drain_forget'),
                ('s_ctor', 'ctor_new'), ('s_ctor', 'from_iter'), ('s_ctor', 'clone_buf'), ('s_ctor', 'clone_from'),
                ('s_cmp', 'ord_buffers'), ('s_cmp', 'hash_layout')):
    add(mod, fn, ['C17'], natural(fn), qn=C17_N, tn=[0, 1, 4], stubs=NOALLOC, configs=C17_CFG)
add('s_ctor', 'from_array', ['C17'], lambda n, m: max(n, m) + 4, pairs=([(0, 2), (1, 3), (3, 2), (3, 5)], [(4, 7)]), stubs=NOALLOC, configs=C17_CFG)
add('s_cmp', 'eq_buffers', ['C17'], lambda n, m: max(n, m) + 4, pairs=([(1, 3), (3, 3)], [(4, 3)]), stubs=NOALLOC, configs=C17_CFG)
add('s_cmp', 'eq_slices', ['C17'], lambda n, k: max(n, k) + 4, pairs=([(3, 3)], [(4, 4)]), stubs=NOALLOC, configs=C17_CFG)
add('s_cmp', 'debug_fmt', ['C17'], lambda n, sp: 19, pairs=([(3, 0)], [(3, 2)]), stubs=NOALLOC, configs=C17_CFG)
add('s_io', 'io_std', ['C17'], lambda n, k: 2 * n + 5, pairs=([(3, 1)], [(4, 1)]), feat='feature = "std"', stubs=NOALLOC, configs=['default'])
# sensitivity witnesses: these must hit the stub
add('s_ctor', 'alloc_witness_vec', ['C17'], U(0, 4), qn=[1], tn=[], stubs=NOALLOC, configs=C17_CFG, expect_fail='ALLOCATION')
add('s_ctor', 'alloc_witness_to_vec', ['C17'], U(1, 4), qn=[3], tn=[], stubs=NOALLOC, configs=['alloc', 'default'],
    feat='feature = "alloc"', expect_fail='ALLOCATION')
add('s_ctor', 'alloc_witness_boxed', ['C17'], U(1, 4), qn=[3], tn=[], stubs=NOALLOC, configs=['alloc', 'default'],
    feat='feature = "alloc"', expect_fail='ALLOCATION')

# ---------------------------------------------------------------- C18: the same families built with the `unstable` feature
C18_CFG = ['default', 'unstable']
C18_N = [3]
for fn in ('push_back', 'push_front', 'pop_front', 'remove', 'truncate_back', 'truncate_front', 'clear', 'extend', 'fill', 'fill_with'):
    add('s_mut', fn, ['C18'], natural(fn), qn=C18_N, tn=[0, 1, 2, 4], mask='ALL18', configs=C18_CFG)
for fn in ('try_push_back', 'try_push_front', 'pop_back', 'swap', 'swap_remove_back', 'swap_remove_front', 'fill_spare', 'fill_spare_with'):
    add('s_mut', fn, ['C18'], natural(fn), qn=[], tn=[0, 1, 2, 3, 4], mask='ALL18', configs=C18_CFG)
add('s_mut', 'extend_from_slice', ['C18'], lambda n: max(2 * n + 4, 15), qn=C18_N, tn=[0, 1, 2, 4], mask='ALL18', configs=C18_CFG)
add('s_mut', 'make_contiguous', ['C18'], U(1, 4), qn=C18_N, tn=[0, 1, 2, 4], stubs=[ROT], mask='ALL18', configs=C18_CFG)
C18_QUICK = (('s_view', 'views'), ('s_view', 'view_mut'), ('s_iter', 'iter_script'), ('s_iter', 'iter_mut_script'),
             ('s_iter', 'into_iter_script'), ('s_drain', 'drain'), ('s_drain', 'drain_forget'), ('s_ctor', 'clone_from'))
C18_MORE = (('s_view', 'view_mut_distinct'), ('s_drain', 'drain_debug'), ('s_ctor', 'ctor_new'), ('s_ctor', 'from_iter'),
            ('s_ctor', 'clone_buf'), ('s_ctor', 'into_iter_all'), ('s_cmp', 'ord_buffers'), ('s_cmp', 'hash_layout'))
for mod, fn in C18_QUICK:
    add(mod, fn, ['C18'], natural(fn), qn=C18_N, tn=[0, 1, 2, 4], mask='ALL18', configs=C18_CFG)
for mod, fn in C18_MORE:
    add(mod, fn, ['C18'], natural(fn), qn=[], tn=[0, 1, 2, 3, 4], mask='ALL18', configs=C18_CFG)
add('s_ctor', 'from_array', ['C18'], lambda n, m: max(n, m) + 4, pairs=([(0, 2), (1, 3), (3, 2), (3, 5)], [(2, 5), (4, 7)]), mask='ALL18', configs=C18_CFG)
add('s_cmp', 'eq_buffers', ['C18'], lambda n, m: max(n, m) + 4, pairs=([(1, 3), (3, 3)], [(4, 3)]), mask='ALL18', configs=C18_CFG)
add('s_io', 'io_std', ['C18'], lambda n, k: 2 * n + 5, pairs=([(3, 1)], [(1, 1), (4, 1)]), feat='feature = "std"', mask='ALL18', configs=C18_CFG)


def nname(n):
    if isinstance(n, str):
        return HUGE_NAMES[HUGE.index(n)]
    return str(n)


def instances(tier_filter=None):
    """yield dicts describing every harness instance"""
    for sc in SCENARIOS:
        for prop in sc.props:
            if sc.pairs is not None:
                for tier, ps in (('q', sc.pairs[0]), ('t', sc.pairs[1])):
                    for (n, m) in ps:
                        name = '%s_%s__%s__n%s_m%d' % (tier, prop.lower(), sc.fn, nname(n), m)
                        yield dict(name=name, tier=tier, prop=prop, scen=sc, n=n, m=m,
                                   unwind=sc.unwind(n, m), mask=sc.mask or prop)
                continue
            qn, tn = sc.qn, sc.tn
            if prop == 'C20' and sc.fn in ('remove', 'drain'):
                qn, tn = QN + [5, 6], []
            if prop == 'C11' and not sc.extra.get('expect_panic') and qn == QN:
                # totality harnesses duplicate the functional families: quick runs them at three capacities only
                qn, tn = [0, 1, 3], [2, 4, 5, 6]
            for tier, ns in (('q', qn), ('t', tn)):
                for n in ns:
                    name = '%s_%s__%s__n%s' % (tier, prop.lower(), sc.fn, nname(n))
                    yield dict(name=name, tier=tier, prop=prop, scen=sc, n=n, m=None,
                               unwind=sc.unwind(n), mask=sc.mask or prop)
