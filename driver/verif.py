#!/usr/bin/env python3
"""Driver: build, schedule, parse, replay, evidence.  See DESIGN.md §2.4.

  verif.py check <Cxx> quick|thorough      -> exit 0 held / 1 VIOLATION / 2 broken-or-undecided
  verif.py replay <path>                   -> re-run a recorded counterexample natively
"""
import json, os, re, subprocess, sys, time, shutil, glob, hashlib

HERE = os.path.dirname(os.path.abspath(__file__))
VERIF = os.path.dirname(HERE)
sys.path.insert(0, HERE)
import scenarios
import props as P

HARNESS = os.path.join(VERIF, 'harness')
BUILD = os.environ.get('VERIF_BUILD_DIR') or os.path.join(VERIF, 'build')
REPO = os.environ.get('VERIF_REPO') or '/repo'      # VERIF_REPO: run against a copy of the repository (background runs only)

ENV = dict(os.environ, CARGO_NET_OFFLINE='true', CARGO_TERM_COLOR='never')

CONFIGS = {
    # name: (cargo feature flags for the harness crate, description)
    'default': ([], 'default features (std)'),
    'unstable': (['--features', 'unstable'], 'std + unstable'),
    'eio': (['--features', 'eio'], 'std + embedded-io'),
    'eio-async': (['--features', 'eio-async'], 'std + embedded-io-async'),
    'eio-both': (['--features', 'eio,eio-async'], 'std + embedded-io + embedded-io-async'),
    'nodefault': (['--no-default-features'], 'circular-buffer without std and alloc'),
    'alloc': (['--no-default-features', '--features', 'alloc'], 'circular-buffer with alloc only'),
    'plain': (['--features', 'plain'], 'default features; element tokens without drop glue'),
}


def log(*a):
    print(*a, flush=True)


def sh(cmd, cwd=None, timeout=None, env=None, capture=True):
    t0 = time.time()
    try:
        p = subprocess.run(cmd, cwd=cwd, env=env or ENV, stdout=subprocess.PIPE if capture else None,
                           stderr=subprocess.STDOUT if capture else None, timeout=timeout, text=True)
        return p.returncode, p.stdout or '', time.time() - t0
    except subprocess.TimeoutExpired as e:
        out = e.stdout if isinstance(e.stdout, str) else (e.stdout or b'').decode(errors='replace')
        return 124, out + '\nTIMEOUT', time.time() - t0


def repo_fingerprint():
    h = hashlib.sha256()
    for f in sorted(glob.glob(os.path.join(REPO, 'src', '*.rs')) + [os.path.join(REPO, 'Cargo.toml')]):
        h.update(open(f, 'rb').read())
    return h.hexdigest()[:16]


# ------------------------------------------------------------------------------------ E1 (Kani)

def kani_cmd(config, target_dir):
    feats, _ = CONFIGS[config]
    return ['cargo', 'kani', '-Z', 'unstable-options', '-Z', 'stubbing', '--target-dir', target_dir] + feats


def run_kani(prop, tier, config, patterns, jobs=16, harness_timeout='20m', reach=True):
    """run all harnesses whose name contains one of `patterns`; returns parsed JSON export + log"""
    os.makedirs(BUILD, exist_ok=True)
    tdir = os.path.join(BUILD, 'kani-' + config)
    out_json = os.path.join(BUILD, 'kani-%s-%s-%s.json' % (prop, tier, config))
    if os.path.exists(out_json):
        os.remove(out_json)
    cmd = kani_cmd(config, tdir) + ['--export-json', out_json, '-j', str(jobs), '--output-format', 'terse',
                                    '--harness-timeout', harness_timeout]
    if tier == 'quick' or not reach:
        # Kani's per-assertion reachability covers triple the run time (CBMC emits a trace per cover);
        # both tiers rely on the scenarios' own cover points (with the reach checks on, the thorough runs also made
        # the Kani driver itself exceed the per-process memory cap while collecting the per-check output)
        cmd += ['--no-assertion-reach-checks']
    for p in patterns:
        cmd += ['--harness', p]
    if patterns and all(p.startswith('generated::proofs::') for p in patterns):
        cmd.append('--exact')
    rc, out, dt = sh(cmd, cwd=HARNESS, timeout=6 * 3600)
    logf = os.path.join(BUILD, 'kani-%s-%s-%s.log' % (prop, tier, config))
    open(logf, 'w').write(out)
    data = None
    if os.path.exists(out_json):
        try:
            data = json.load(open(out_json))
        except Exception as e:
            data = None
    return dict(rc=rc, log=logf, out=out, json=data, wall=dt, cmd=' '.join(cmd))


OK_STATUS = ('Success', 'Unreachable', 'Satisfied', 'Covered')


def classify_check(c):
    """-> 'obligation' | 'unwind' | 'cover' | 'code' """
    cat = c.get('category', '')
    desc = c.get('description', '')
    loc = (c.get('location') or {}).get('file', '') or ''
    if cat == 'cover':
        return 'cover'
    if cat == 'unwind' or 'unwinding assertion' in desc:
        return 'unwind'
    if cat == 'assertion' and loc.startswith('src/') and not loc.startswith('/'):
        return 'obligation'
    return 'code'


def norm_fn(fn):
    """function name without concrete generic arguments (one entry per function, not per instantiation)"""
    out, i = '', 0
    while i < len(fn):
        ch = fn[i]
        if ch == '<' and i > 0 and (fn[i - 1].isalnum() or fn[i - 1] == '_' or fn[i - 2:i] == '::'):
            d, j = 0, i
            while j < len(fn):
                if fn[j] == '<':
                    d += 1
                elif fn[j] == '>' and fn[j - 1] != '-':
                    d -= 1
                    if d == 0:
                        break
                j += 1
            i = j + 1
            if out.endswith('::'):
                out = out[:-2]
            continue
        out += ch
        i += 1
    return out[:110]


def analyse_kani(data):
    """per harness: status, failed obligations, failed code checks, covers, stats"""
    res = {}
    if not data:
        return res
    stats = {c['harness_id']: c.get('cbmc_stats', {}) for c in data.get('cbmc', [])}
    for r in data.get('verification_results', {}).get('results', []):
        hid = r['harness_id']
        name = hid.split('::')[-1]
        ob, code, unw, covers, nchecks, undet = [], [], [], {}, 0, []
        funcs = set()
        for c in r.get('checks', []):
            k = classify_check(c)
            st = c.get('status')
            if k == 'cover':
                covers[c.get('description', '').strip('"')] = st
                continue
            nchecks += 1
            fn = c.get('function', '')
            if fn.startswith('circular_buffer::') or '<circular_buffer::' in fn or ' as circular_buffer' in fn:
                funcs.add(norm_fn(fn))
            if st in OK_STATUS:
                continue
            item = dict(desc=c.get('description', '').strip('"'), function=fn,
                        loc='%s:%s' % ((c.get('location') or {}).get('file'), (c.get('location') or {}).get('line')),
                        category=c.get('category'), status=st)
            if st != 'Failure':
                undet.append(item)
            elif k == 'obligation':
                ob.append(item)
            elif k == 'unwind':
                unw.append(item)
            else:
                code.append(item)
        res[name] = dict(id=hid, status=r.get('status'), duration_s=r.get('duration_ms', 0) / 1000.0,
                         obligations_failed=ob, code_failed=code, unwind_failed=unw, undetermined=undet,
                         covers=covers, checks=nchecks, stats=stats.get(hid) or {}, functions=sorted(funcs))
    return res


def concrete_playback(config, harness_id):
    """-> {check description: [[bytes], ...]} for the failed checks of one harness"""
    tdir = os.path.join(BUILD, 'kani-' + config)
    cmd = kani_cmd(config, tdir) + ['-Z', 'concrete-playback', '--concrete-playback=print', '--output-format', 'terse', '--no-assertion-reach-checks',
                                    '--harness', harness_id, '--exact', '--harness-timeout', '30m']
    rc, out, dt = sh(cmd, cwd=HARNESS, timeout=3600)
    try:
        open(os.path.join(BUILD, 'playback-%s.log' % harness_id.split('::')[-1]), 'w').write(out)
    except Exception:
        pass
    vals = {}
    cur = None
    for line in out.split('\n'):
        m = re.match(r'^/// Check for `(\w+)`: "(.*)"\s*$', line)
        if m:
            cur = (m.group(1), m.group(2))
            vals[cur] = []
            continue
        m = re.match(r'^\s*vec!\[(.*)\],?\s*$', line)
        if m and cur is not None and 'concrete_vals' not in line:
            body = m.group(1).strip()
            vals[cur].append([int(x) for x in body.split(',') if x.strip()] if body else [])
        if 'kani::concrete_playback_run' in line:
            cur = None
    return vals, dt


def build_replayer(config):
    feats, _ = CONFIGS[config]
    bins = {}
    for prof, flag in (('dev', []), ('release', ['--release'])):
        tdir = os.path.join(BUILD, 'native-' + config)
        cmd = ['cargo'] + (['+nightly'] if config == 'unstable' else []) + ['build', '--offline', '--bin', 'replay', '--target-dir', tdir] + flag + feats
        rc, out, dt = sh(cmd, cwd=HARNESS, timeout=1800)
        if rc != 0:
            return None, out
        bins[prof] = os.path.join(tdir, 'debug' if prof == 'dev' else 'release', 'replay')
    return bins, ''


def encode_vals(vals):
    return ';'.join(','.join(str(b) for b in v) for v in vals)


def native_replay(bins, harness, vals):
    """-> {profile: (exit code, line)}"""
    out = {}
    for prof, b in bins.items():
        rc, o, _ = sh([b, harness, encode_vals(vals)], timeout=300)
        line = [l for l in o.split('\n') if l.startswith('REPLAY ')]
        if rc in (134, -6):
            # the process aborted: a second panic while the first one was unwinding (typically the buffer's own
            # destructor tripping over the broken state) -- a failure inside the code under test, like a panic
            rc = 3
            line = ['REPLAY harness=%s outcome=ABORT (panic while unwinding: %s)' % (harness, o.strip().split('\n')[-1][:120])]
        out[prof] = (rc, line[-1] if line else o.strip()[-300:])
    return out


# ------------------------------------------------------------------------------------ known findings

def load_known():
    known, fixed = [], []
    p = os.path.join(VERIF, 'known_findings.txt')
    if os.path.exists(p):
        for l in open(p):
            l = l.strip()
            if not l or l.startswith('#'):
                continue
            m = re.match(r'^known:\s*property=(\w+)\s+key=(\S+)\s*(.*)$', l)
            if m:
                known.append(dict(prop=m.group(1), key=m.group(2), text=m.group(3)))
            m = re.match(r'^fixed:\s*property=(\w+)\s+(\S+)\s*(.*)$', l)
            if m:
                fixed.append(dict(prop=m.group(1), commit=m.group(2), text=m.group(3)))
    return known, fixed


# ------------------------------------------------------------------------------------ check

def run_e1(prop, tier, config, spec, parts, broken):
    """run the harnesses of `prop` in one configuration -> (analysis, instances, part) or None"""
    pats = ['q_%s__' % prop.lower()] + (['t_%s__' % prop.lower()] if tier == 'thorough' else [])
    insts = [i for i in scenarios.instances() if i['prop'] == prop and config in i['scen'].configs
             and (i['tier'] == 'q' or tier == 'thorough')]
    seed = int(os.environ.get('VERIF_SEED', '0') or 0)
    if tier == 'quick' and seed and spec.get('seed_extras'):
        # the core quick set is fixed; a non-zero seed adds two instances of the thorough set, chosen by the seed
        extra = [i for i in scenarios.instances() if i['prop'] == prop and config in i['scen'].configs and i['tier'] == 't']
        for k in range(min(2, len(extra))):
            e = extra[(seed * 7919 + k * 104729) % len(extra)]
            if e not in insts:
                insts.append(e)
                pats.append(e['name'])
    if not insts:
        return None
    log('-- E1/Kani config=%s: %d harnesses' % (config, len(insts)))
    # exact harness names (a prefix pattern would also pick up instances registered for other configurations)
    pats = ['generated::proofs::' + i['name'] for i in insts]
    r = run_kani(prop, tier, config, pats, jobs=spec.get('jobs', 16), reach=spec.get('thorough_reach', False), harness_timeout=spec.get('harness_timeout', '20m' if tier == 'quick' else '60m'))
    an = analyse_kani(r['json'])
    part = dict(engine='E1/kani', config=config, cmd=r['cmd'], wall_s=round(r['wall'], 1), harnesses={}, log=r['log'])
    parts.append(part)
    if r['json'] is None:
        part['no_result'] = True
        part['tail'] = '\n'.join(r['out'].split('\n')[-30:])
        return (None, insts, part)
    missing = set(i['name'] for i in insts) - set(an)
    if missing:
        broken.append('harnesses not run in config %s: %s' % (config, ', '.join(sorted(missing)[:5])))
    return (an, insts, part)


def failed_items(h, sc, spec):
    """(obligations, code failures) that count for this property"""
    failed = list(h['obligations_failed'])
    code = list(h['code_failed'])
    if spec.get('only_desc'):
        failed = [c for c in failed if spec['only_desc'] in c['desc']]
        code = [c for c in code if spec['only_desc'] in c['desc']]
    return failed, code


def replay_counterexample(prop, config, name, h, items, obligations, bins, extra_bins=None):
    """concrete playback + native replay; -> (confirmed record or None, list of attempts)"""
    vals, dt = concrete_playback(config, h['id'])
    attempts = []
    for item in items:
        key = None
        for (cat, msg) in vals:
            if msg == item['desc'] or item['desc'] in msg or msg in item['desc']:
                key = (cat, msg)
                break
        # Kani prints one playback test per distinct value vector: when the failing check shares its values with a
        # cover point only the cover's header appears.  So: the vector printed for this check if there is one,
        # otherwise every printed vector is tried; a vector counts only if the native run fails *this* check
        # (or, for a failure inside the code under test, panics there).
        cands = [key] if key is not None else list(vals)
        if not cands:
            # no playback at all (Kani's playback mode needs a CBMC trace, which CBMC cannot build for some harnesses, e.g.
            # zero-sized arrays of >= 2^63 elements): concretise the reported failure by a native search over boundary values
            xc, o, _ = sh([bins['dev'], 'search', name, '200000'], timeout=900)
            m = re.search(r'^SEARCH .* outcome=(FAILED|PANIC) (?:check|message)=(".*?") values=(\S*)$', o, re.M)
            if m and ((m.group(1) == 'FAILED' and item['desc'] in m.group(2)) or (m.group(1) == 'PANIC' and item not in obligations)):
                v = [[int(b) for b in e.split(',') if b != ''] for e in m.group(3).split(';') if e != '']
                vals[('search', item['desc'])] = v
                cands = [('search', item['desc'])]
                key = cands[0]
            else:
                attempts.append(dict(check=item['desc'], native='no concrete values produced by Kani; native search: ' + o.strip()[-160:]))
                continue
        for k in cands:
            rr = native_replay(bins, name, vals[k])
            ok = any((xc == 1 and (key is not None or item['desc'] in line)) or (xc == 3 and item not in obligations) for (xc, line) in rr.values())
            rec = dict(property=prop, harness=name, config=config, check=item['desc'], where=item['loc'], function=item['function'],
                       values=vals[k], native=rr, replay='harness/replay %s "%s"' % (name, encode_vals(vals[k])))
            if extra_bins:
                rec['native_other_config'] = native_replay(extra_bins, name, vals[k])
            attempts.append(rec)
            if ok:
                return rec, attempts
    return None, attempts


def save_replay(prop, name, rec):
    rdir = os.path.join(os.environ.get('VERIF_REPLAY_DIR') or os.path.join(VERIF, 'replays'), prop)
    os.makedirs(rdir, exist_ok=True)
    path = os.path.join(rdir, name + '.json')
    open(path, 'w').write(json.dumps(rec, indent=1).replace('\n   ', ' ').replace('\n  ]', ' ]'))
    return path


def check(prop, tier):
    t0 = time.time()
    seed = int(os.environ.get('VERIF_SEED', '0') or 0)
    spec = P.PROPS[prop]
    log('== %s %s  (%s)' % (prop, tier, spec['title']))
    rc, out, _ = sh([sys.executable, os.path.join(HERE, 'gen.py')])
    if rc != 0:
        log(out)
        return finish(prop, tier, seed, t0, broken=['generator failed'], parts=[])
    if REPO != '/repo':
        ct = os.path.join(HARNESS, 'Cargo.toml')
        txt = open(ct).read()
        new = re.sub(r'circular-buffer = \{ path = "[^"]*"', 'circular-buffer = { path = "%s"' % REPO, txt)
        if new != txt:
            open(ct, 'w').write(new)
    parts = []
    violations, broken, undecided, notes = [], [], [], []
    known, _fixed = load_known()

    if spec.get('differential'):
        differential(prop, tier, spec, parts, violations, broken, undecided, notes)
    else:
        configs = spec.get('e1_configs', []) + (spec.get('e1_configs_thorough', []) if tier == 'thorough' else [])
        results = {}
        if spec.get('parallel_configs') and len(configs) > 1:
            # independent builds: run them side by side, the cores shared between them
            import concurrent.futures
            spec_p = dict(spec, jobs=max(4, 16 // len(configs)))
            plists = {c: [] for c in configs}
            with concurrent.futures.ThreadPoolExecutor(max_workers=len(configs)) as ex:
                futs = {c: ex.submit(run_e1, prop, tier, c, spec_p, plists[c], broken) for c in configs}
                for c in configs:
                    results[c] = futs[c].result()
                    parts.extend(plists[c])
        for config in configs:
            r = results[config] if config in results else run_e1(prop, tier, config, spec, parts, broken)
            if r is None:
                continue
            an, insts, part = r
            if an is None:
                if spec.get('build_clause') and build_fails(config):
                    # the crate does not build in this configuration: that *is* the violation (C17's build clause)
                    rec = dict(engine='build', property=prop, config=config, cmd='cd harness && cargo build --offline ' + ' '.join(CONFIGS[config][0]),
                               tail=part.get('tail', '')[-1500:])
                    path = save_replay(prop, 'build_' + config, rec)
                    violations.append(dict(path=path, harness='build ' + config, check='the crate builds in configuration ' + CONFIGS[config][1], role='build/' + config))
                else:
                    log(part.get('tail', ''))
                    broken.append('kani produced no result for config %s (see %s)' % (config, part['log']))
                continue
            judge_config(prop, tier, config, spec, an, insts, part, known, violations, broken, undecided, notes)

    # ---- E2 (mir2c) parts
    for e2 in spec.get('e2', []):
        import mir2c_run
        if e2.get('baseline'):
            # differential (C18): a failure that the baseline configuration shows too is equal behaviour
            rb = mir2c_run.run(prop, tier, dict(e2, **e2['baseline']), log, quiet=True)
            parts.append(rb['part'])
            broken += rb.get('broken', [])
            undecided += rb.get('undecided', [])
            r = mir2c_run.run(prop, tier, e2, log, baseline=rb['failing'])
            # the same case space on the real crate, natively, in both builds: every printed line must coincide
            nd, err = mir2c_run.native_differential(prop, tier, log)
            if nd is None:
                broken.append('native differential: ' + err)
            else:
                diffs, total = nd
                r['part']['native_differential'] = '%d cases run natively in the default and the unstable build, %d differing lines' % (total, len(diffs))
                r['part']['traces_validated_against_impl'] = r['part'].get('traces_validated_against_impl', 0) + total
                if diffs:
                    n0, a, b = diffs[0]
                    m = re.match(r'^(\S+) N=(\d+) M=(\d+) start=(\d+) size=(\d+) a=(\d+) b=(\d+) start2=(\d+) size2=(\d+) fault=(\d+)@(\d+)', a)
                    case = dict(zip(('op', 'N', 'M', 'start', 'size', 'a', 'b', 'start2', 'size2', 'kind', 'at'), m.groups())) if m else {}
                    path = save_replay(prop, 'native_differential', dict(engine='E2', differential=True, property=prop, case=case, default_build=a, unstable_build=b,
                                                                          differing_lines=len(diffs)))
                    r.setdefault('violations', []).append(dict(path=path, harness='native default vs unstable', check='the two builds behave differently: %s' % a[:140], role='%s/differs' % case.get('op')))
            if r['failing'] != rb['failing'] and not r.get('violations') and (rb['failing'] - r['failing']):
                broken.append('E2 differential: the baseline configuration fails checks that the other does not: %s' % sorted(rb['failing'] - r['failing'])[:3])
        else:
            r = mir2c_run.run(prop, tier, e2, log)
        parts.append(r['part'])
        for v in r.get('violations', []):
            kf = [k for k in known if k['prop'] == prop and k['key'] == v.get('role')]
            if kf:
                log('KNOWN-FINDING: property=%s %s %s' % (prop, v.get('role'), kf[0]['text']))
            else:
                violations.append(v)
        if e2.get('auxiliary'):
            # second engine on a property that E1 decides completely: a query that cannot be decided there (or an encoding
            # that cannot be validated on this tree) is reported, not counted; a reproduced violation still is one
            notes += ['(auxiliary E2 part) ' + u for u in r.get('undecided', []) + r.get('broken', [])]
        else:
            broken += r.get('broken', [])
            undecided += r.get('undecided', [])
        notes += r.get('notes', [])

    return finish(prop, tier, seed, t0, parts=parts, violations=violations, broken=broken, undecided=undecided, notes=notes)


def build_fails(config):
    feats, _ = CONFIGS[config]
    rc, out, dt = sh(['cargo', 'build', '--offline', '--target-dir', os.path.join(BUILD, 'native-' + config)] + feats, cwd=HARNESS, timeout=1800)
    return rc != 0


def harness_entry(inst, h):
    return dict(status=h['status'], n=inst['n'], m=inst.get('m'), unwind=inst['unwind'], checks=h['checks'],
                solver_s=h['stats'].get('runtime_solver_s'), symex_s=h['stats'].get('runtime_symex_s'),
                vccs=h['stats'].get('vccs_generated'), duration_s=h['duration_s'], functions=h['functions'])


def judge_config(prop, tier, config, spec, an, insts, part, known, violations, broken, undecided, notes):
    bins = None
    replayed = 0
    fam_covers = {}
    # failing harnesses are replayed cheapest first, those with a failed scenario obligation before those that only
    # fail a built-in check (which a native run may not be able to show)
    for name in sorted(an, key=lambda n: (0 if an[n]['obligations_failed'] else 1, an[n]['duration_s'])):
        h = an[name]
        inst = next((i for i in insts if i['name'] == name), None)
        if inst is None:
            continue
        sc = inst['scen']
        for cmsg, st in h['covers'].items():
            fam_covers.setdefault((sc.fn, cmsg), []).append(st)
        entry = harness_entry(inst, h)
        part['harnesses'][name] = entry
        if sc.expect_fail:
            # sensitivity witness: must fail with exactly the expected check
            descs = [x['desc'] for x in h['obligations_failed'] + h['code_failed']]
            if not descs or any(sc.expect_fail not in d for d in descs):
                broken.append('sensitivity witness %s did not fail as expected: %s' % (name, descs[:3]))
                entry['witness'] = 'BROKEN'
            else:
                entry['witness'] = 'fails as expected'
                entry['status'] = 'Success'
            continue
        if h['unwind_failed']:
            broken.append('%s: unwinding bound too small (%s)' % (name, h['unwind_failed'][0]['loc']))
            continue
        if h['undetermined'] or h['status'] not in ('Success', 'Failure'):
            undecided.append('%s: status %s %s' % (name, h['status'], [x['status'] for x in h['undetermined'][:2]]))
            continue
        failed, code = failed_items(h, sc, spec)
        if sc.extra.get('expect_panic'):
            # "must panic" harness: the crate's own panics are expected (and required); anything that is
            # not a Rust panic (memory-safety checks) stays a failure
            panics = [c for c in code if c['category'] in ('assertion', 'arithmetic_overflow', 'division-by-zero')]
            code = [c for c in code if c not in panics]
            entry['documented_panics_seen'] = sorted(set(c['desc'][:60] for c in panics))[:6]
            if not panics and not failed:
                broken.append('%s: no panic check failed under the documented panic condition' % name)
            if not failed and not code:
                entry['status'] = 'Success'
        if not spec.get('code_failures_count', True):
            if code and not failed:
                notes.append('%s: the operation fails a built-in check (%s); such paths are outside %s' % (name, code[0]['desc'][:80], prop))
            code = []
        if not failed and not code:
            if h['status'] != 'Success' and not sc.extra.get('expect_panic') and not (h['obligations_failed'] or h['code_failed']):
                undecided.append('%s: reported %s without a failed check' % (name, h['status']))
            elif h['status'] != 'Success' and (h['obligations_failed'] or h['code_failed']) and not sc.extra.get('expect_panic'):
                entry['status'] = 'Success (failures outside this property: %s)' % (h['obligations_failed'] + h['code_failed'])[0]['desc'][:60]
            continue
        # ---- a counterexample: replay natively before reporting
        entry['failed'] = [x['desc'] for x in failed + code][:6]
        if replayed >= spec.get('max_replays', 3) or (violations and replayed >= 1):
            notes.append('%s also fails (%s); not replayed' % (name, entry['failed'][0]))
            entry['replay'] = 'skipped'
            continue
        replayed += 1
        if bins is None:
            bins, err = build_replayer(config)
            if bins is None:
                broken.append('replayer does not build: ' + err[-400:])
                continue
        confirmed, attempts = replay_counterexample(prop, config, name, h, failed + code, failed, bins)
        if confirmed:
            path = save_replay(prop, name, confirmed)
            role = '%s/%s' % (sc.fn, 'obligation' if confirmed['check'] in [x['desc'] for x in failed] else 'panic')
            kf = [k for k in known if k['prop'] == prop and k['key'] == role]
            if kf:
                log('KNOWN-FINDING: property=%s %s %s' % (prop, role, kf[0]['text']))
                entry['known_finding'] = role
            else:
                violations.append(dict(path=path, harness=name, check=confirmed['check'], role=role))
                entry['replay'] = 'REPRODUCED natively'
        else:
            broken.append('%s: counterexample for "%s" does not reproduce natively (log %s; attempts %s)' % (
                name, (failed + code)[0]['desc'][:80], part['log'], json.dumps(attempts)[:400]))
            entry['replay'] = 'NOT reproduced'
    # vacuity: every cover of a scenario family must be satisfiable for at least one capacity
    for (fam, cmsg), sts in sorted(fam_covers.items()):
        need = re.match(r'^\(N>=(\d+)\)', cmsg)
        if need and not any(isinstance(i['n'], int) and i['n'] >= int(need.group(1)) for i in insts if i['scen'].fn == fam):
            continue        # this witness needs a capacity that this property's set does not contain
        if not any(s in ('Satisfied', 'Covered', 'Success') for s in sts):
            broken.append('vacuity: cover "%s" of %s is never satisfied (%s)' % (cmsg, fam, sorted(set(sts))))
    part['covers'] = {'%s: %s' % k: ('satisfied in %d of %d instances' % (sum(1 for s in v if s in ('Satisfied', 'Covered', 'Success')), len(v)))
                      for k, v in sorted(fam_covers.items())}


def differential(prop, tier, spec, parts, violations, broken, undecided, notes):
    """C18: the same harnesses in two configurations; only a *difference* between them is a violation"""
    ca, cb = spec['differential']
    # the two builds are independent: run them side by side, half the cores each
    import concurrent.futures
    spec2 = dict(spec, jobs=8)
    pa, pb = [], []
    with concurrent.futures.ThreadPoolExecutor(max_workers=2) as ex:
        fa = ex.submit(run_e1, prop, tier, ca, spec2, pa, broken)
        fb = ex.submit(run_e1, prop, tier, cb, spec2, pb, broken)
        ra, rb = fa.result(), fb.result()
    parts.extend(pa + pb)
    if ra is None or rb is None or ra[0] is None or rb[0] is None:
        broken.append('differential run incomplete (%s / %s)' % (ca, cb))
        for r in (ra, rb):
            if r and r[0] is None:
                log(r[2].get('tail', ''))
        return
    (ana, insts, pa), (anb, _, pb) = ra, rb
    bins = {}
    replayed = 0
    for name in sorted(set(ana) | set(anb)):
        inst = next((i for i in insts if i['name'] == name), None)
        if inst is None or name not in ana or name not in anb:
            broken.append('%s missing in one configuration' % name)
            continue
        ha, hb = ana[name], anb[name]
        pa['harnesses'][name] = harness_entry(inst, ha)
        pb['harnesses'][name] = harness_entry(inst, hb)
        for cfgname, h in ((ca, ha), (cb, hb)):
            if h['unwind_failed']:
                broken.append('%s [%s]: unwinding bound too small' % (name, cfgname))
            if h['undetermined'] or h['status'] not in ('Success', 'Failure'):
                undecided.append('%s [%s]: status %s' % (name, cfgname, h['status']))
        fa = sorted(set(x['desc'] for x in ha['obligations_failed'] + ha['code_failed']))
        fb = sorted(set(x['desc'] for x in hb['obligations_failed'] + hb['code_failed']))
        if fa == fb:
            if fa:
                notes.append('%s fails identically in both configurations (%s): equal behaviour, not a %s matter' % (name, fa[0][:60], prop))
                pa['harnesses'][name]['status'] = pb['harnesses'][name]['status'] = 'Success (identical failure in both configurations)'
            continue
        # behaviour differs between the builds: confirm natively in both
        if replayed >= 2:
            notes.append('%s also differs between the configurations; not replayed' % name)
            continue
        replayed += 1
        for c in (ca, cb):
            if c not in bins:
                bins[c], err = build_replayer(c)
                if bins[c] is None:
                    broken.append('replayer for %s does not build: %s' % (c, err[-300:]))
        if not bins.get(ca) or not bins.get(cb):
            continue
        which, h, other = (cb, hb, ca) if fb else (ca, ha, cb)
        items = h['obligations_failed'] + h['code_failed']
        confirmed, attempts = replay_counterexample(prop, which, name, h, items, h['obligations_failed'], bins[which], extra_bins=bins[other])
        if confirmed:
            o = confirmed.get('native_other_config', {})
            same = all(o.get(pr, (None,))[0] == confirmed['native'][pr][0] for pr in confirmed['native'])
            if same:
                notes.append('%s: fails natively in both configurations alike; not a difference' % name)
                continue
            path = save_replay(prop, name, dict(confirmed, differs_from=other))
            violations.append(dict(path=path, harness=name, check='[%s only] %s' % (which, confirmed['check']), role='%s/differs' % inst['scen'].fn))
        else:
            broken.append('%s: difference between %s and %s does not reproduce natively (%s)' % (name, ca, cb, json.dumps(attempts)[:300]))


def finish(prop, tier, seed, t0, parts, violations=(), broken=(), undecided=(), notes=()):
    spec = P.PROPS[prop]
    wall = time.time() - t0
    nh = sum(len(p.get('harnesses', {})) for p in parts) + sum(p.get('queries', 0) for p in parts)
    nontrivial = 0
    obligations = 0
    discharged = 0
    solver = 0.0
    samples = []
    funcs = set()
    for p in parts:
        for name, h in p.get('harnesses', {}).items():
            obligations += h.get('checks', 0)
            if h.get('status') == 'Success':
                discharged += h.get('checks', 0)
                nontrivial += 1
            solver += (h.get('solver_s') or 0) + (h.get('symex_s') or 0)
            funcs.update(h.get('functions', []))
            if len(samples) < 12:
                samples.append(dict(engine=p['engine'], config=p.get('config'), harness=name, N=h.get('n'), M=h.get('m'),
                                    unwind=h.get('unwind'), checks=h.get('checks'), status=h.get('status'),
                                    solver_s=h.get('solver_s'), vccs=h.get('vccs')))
        for q in p.get('query_list', []):
            if q.get('status') == 'witness':
                continue
            obligations += q.get('checks', 0)
            if q.get('status') == 'pass':
                discharged += q.get('checks', 0)
                nontrivial += 1
            solver += q.get('solver_s', 0) or 0
            funcs.update(q.get('functions', []))
            if len(samples) < 20:
                samples.append(q)
    ev = dict(
        property_id=prop, tier=tier, seed=seed, level='model_checking',
        coverage=dict(
            evaluations=max(nh, 1), distinct_nontrivial=nontrivial,
            rule='one evaluation = one solver query (a Kani proof harness or a mir2c/CBMC harness, each a distinct (scenario, capacity[, second capacity], configuration)); it counts as non-trivial when it was decided SUCCESS with its unwinding assertions proved; vacuity witnesses (cover points) are checked per scenario family',
            samples=samples or [dict(note='no query ran')],
            obligations=obligations, discharged=discharged,
            functions_encoded=sorted(funcs)[:200],
            bounds=spec.get('bounds', {}).get(tier, spec.get('bounds', {})),
            stubs=spec.get('stubs', []),
            solver_time_s=round(solver, 1),
            traces_validated_against_impl=sum(p.get('traces_validated_against_impl', 0) for p in parts),
            parts=[{k: v for k, v in p.items() if k not in ('harnesses', 'query_list')} for p in parts],
            repo_fingerprint=repo_fingerprint(),
            notes=list(notes)[:40], broken=list(broken)[:40], undecided=list(undecided)[:40],
            exhaustive=False,
        ),
        assumptions=spec.get('assumptions', []),
        wall_s=round(wall, 1),
        violations=len(violations),
    )
    evdir = os.environ.get('VERIF_EVIDENCE_DIR') or os.path.join(VERIF, 'evidence')
    os.makedirs(evdir, exist_ok=True)
    json.dump(ev, open(os.path.join(evdir, prop + '.json'), 'w'), indent=1)
    if tier == 'thorough':
        # the per-property file is rewritten by whichever tier ran last; keep the last thorough run as well
        os.makedirs(os.path.join(evdir, 'thorough'), exist_ok=True)
        json.dump(ev, open(os.path.join(evdir, 'thorough', prop + '.json'), 'w'), indent=1)
    for n in notes:
        log('NOTE ' + n)
    for v in violations:
        log('VIOLATION property=%s replay=%s' % (prop, v['path']))
        log('   harness=%s check="%s"' % (v.get('harness'), v.get('check')))
    for b in broken:
        log('BROKEN ' + b)
    for u in undecided:
        log('UNDECIDED property=%s reason=%s' % (prop, u))
    log('== %s %s: %d queries, %d/%d checks discharged, %.0f s  -> %s' % (
        prop, tier, nh, discharged, obligations, wall,
        'VIOLATION' if violations else ('BROKEN' if broken else ('UNDECIDED' if undecided else 'HELD'))))
    if violations:
        return 1
    if broken or undecided:
        return 2
    return 0


def replay(path):
    rec = json.load(open(path))
    if rec.get('engine') == 'E2':
        import mir2c_run
        return mir2c_run.replay(rec, log)
    bins, err = build_replayer(rec.get('config', 'default'))
    if bins is None:
        log(err)
        return 2
    rr = native_replay(bins, rec['harness'], rec['values'])
    bad = False
    for prof, (rc, line) in rr.items():
        log('%s: exit=%d %s' % (prof, rc, line))
        if rc in (1, 3):
            bad = True
    if bad:
        log('VIOLATION property=%s replay=%s' % (rec['property'], path))
        return 1
    return 0


if __name__ == '__main__':
    if len(sys.argv) >= 3 and sys.argv[1] == 'replay':
        sys.exit(replay(sys.argv[2]))
    if len(sys.argv) >= 4 and sys.argv[1] == 'check':
        sys.exit(check(sys.argv[2], sys.argv[3]))
    print(__doc__)
    sys.exit(5)
