"""E2: rustc MIR dump of /repo -> mir2c translation -> CBMC queries, with native replay of
counterexamples (DESIGN §2.2, §2.3).  Regenerated from /repo's working tree on every run."""
import concurrent.futures, json, os, re, subprocess, sys, time, shutil

HERE = os.path.dirname(os.path.abspath(__file__))
VERIF = os.path.dirname(HERE)
M2C = os.path.join(VERIF, 'mir2c')
BUILD = os.path.join(os.environ.get('VERIF_BUILD_DIR') or os.path.join(VERIF, 'build'), 'mir')
HARNESS = os.path.join(VERIF, 'harness')
ENV = dict(os.environ, CARGO_NET_OFFLINE='true')
REPO = os.environ.get('VERIF_REPO') or '/repo'

ROOTS = ["CircularBuffer::push_back", "CircularBuffer::push_front", "CircularBuffer::try_push_back", "CircularBuffer::try_push_front",
         "CircularBuffer::pop_back", "CircularBuffer::pop_front", "CircularBuffer::remove", "CircularBuffer::truncate_back", "CircularBuffer::truncate_front", "CircularBuffer::clear", "CircularBuffer::fill",
         "CircularBuffer::fill_spare", "CircularBuffer::fill_with", "CircularBuffer::fill_spare_with",
         "CircularBuffer::extend_from_slice", "Extend for CircularBuffer::extend", "FromIterator for CircularBuffer::from_iter",
         "Clone for CircularBuffer::clone", "Clone for CircularBuffer::clone_from", "From for CircularBuffer::from",
         "Drop for Drain::drop", "Drain::over_range", "Iter::over_range", "IterMut::over_range", "Drop for CircularBuffer::drop",
         "PartialEq for CircularBuffer::eq", "CircularBuffer::swap", "Index for CircularBuffer::index", "IndexMut for CircularBuffer::index_mut", "add_mod", "sub_mod"]

# scenario -> (native op for replay, parameters)
NATIVE_OP = {
    'TRUNCATE_BACK': 'truncate_back', 'TRUNCATE_FRONT': 'truncate_front', 'CLEAR': 'clear', 'BUFFER_DROP': 'drop',
    'FILL': 'fill', 'FILL_SPARE': 'fill_spare', 'FILL_WITH': 'fill_with', 'FILL_SPARE_WITH': 'fill_spare_with',
    'EXTEND_FROM_SLICE': 'extend_from_slice', 'EXTEND_ITER': 'extend', 'FROM_ITER': 'from_iter', 'CLONE': 'clone',
    'CLONE_FROM': 'clone_from', 'FROM_ARRAY': 'from_array', 'DRAIN_DROP': 'drain_drop', 'EQ': 'eq',
    'OVER_RANGE_DRAIN': 'drain_new', 'OVER_RANGE_ITER': 'range', 'OVER_RANGE_ITERMUT': 'range_mut',
    'SWAP': 'swap', 'INDEX': 'index', 'INDEX_MUT': 'index_mut', 'ADD_MOD': 'add_mod', 'SUB_MOD': 'sub_mod',
}

MODELS = ['slice index/index_mut for Range/RangeTo/RangeFrom/RangeFull (bounds-checked, panic on failure)', 'split_at(_mut)',
          'split_first/last(_mut)', 'mem::take::<&mut [T]>', 'cmp::min', '<usize as Ord>::cmp',
          'Range<usize>::{next,next_back,is_empty,len}', 'usize::{overflowing_add,checked_add,checked_sub}',
          'Option::{expect,map}', 'Try/FromResidual for Option', 'MaybeUninit::{uninit,assume_init,write,assume_init_ref/mut/read}',
          'ManuallyDrop::{new,deref,deref_mut}', 'mem::{replace,forget}',
          'ptr::{read,copy,copy_nonoverlapping,swap_nonoverlapping,add,drop_in_place::<[T]>}', 'NonNull::{from,as_ref,as_mut}',
          'Iterator::for_each (next, then the closure)', 'Iterator::cloned (next, then T::clone)',
          '<[T] as PartialEq<[U]>>::eq', 'panic entry points (= panic)', 'fmt::Arguments construction (opaque)']


def sh(cmd, cwd=None, timeout=None):
    t0 = time.time()
    try:
        p = subprocess.run(cmd, cwd=cwd, env=ENV, stdout=subprocess.PIPE, stderr=subprocess.STDOUT, timeout=timeout, text=True)
        return p.returncode, p.stdout, time.time() - t0
    except subprocess.TimeoutExpired as e:
        out = e.stdout if isinstance(e.stdout, str) else (e.stdout or b'').decode(errors='replace')
        return 124, (out or '') + '\nTIMEOUT', time.time() - t0


def dump_and_translate(feature_cfg, tag):
    """rustc -Zunpretty=mir of /repo/src/lib.rs, then mir2c.  Returns (gen file, info)"""
    os.makedirs(BUILD, exist_ok=True)
    for f in os.listdir(M2C):
        if f.endswith('.h') or f.endswith('.c'):
            shutil.copy(os.path.join(M2C, f), BUILD)
    mir = os.path.join(BUILD, 'mir_%s.txt' % tag)
    cmd = ['rustc', '+nightly', '--edition', '2021', '--crate-type', 'lib', '--crate-name', 'circular_buffer', REPO + '/src/lib.rs',
           '-Zunpretty=mir', '-C', 'overflow-checks=on', '-C', 'debug-assertions=off']
    for c in feature_cfg:
        cmd += ['--cfg', 'feature="%s"' % c]
    t0 = time.time()
    p = subprocess.run(cmd, env=ENV, stdout=open(mir, 'w'), stderr=subprocess.PIPE, text=True, cwd=BUILD)
    if p.returncode != 0 or os.path.getsize(mir) < 1000:
        return None, dict(error='rustc MIR dump failed: ' + p.stderr[-800:])
    gen = os.path.join(BUILD, 'gen_%s.c' % tag)
    rc, out, dt = sh([sys.executable, os.path.join(M2C, 'mir2c.py'), mir, REPO + '/src', gen] + ROOTS, cwd=BUILD, timeout=300)
    m = re.search(r'translated (\d+) functions, (\d+) unsupported', out)
    info = dict(mir_lines=sum(1 for _ in open(mir)), translated=int(m.group(1)) if m else 0,
                unsupported=[l[13:] for l in out.split('\n') if l.startswith('UNSUPPORTED: ')], seconds=round(time.time() - t0, 1),
                rustc_cmd=' '.join(cmd))
    if rc != 0 or not m:
        info['error'] = 'mir2c failed: ' + out[-800:]
        return None, info
    fns = []
    for l in open(gen):
        mm = re.match(r'^\S.* (mir_\w+)\(.*\) \{$', l)
        if mm:
            fns.append(mm.group(1)[4:])
    info['functions'] = fns
    return gen, info


def cbmc_job(job):
    """one CBMC query; job: dict(scen, n, m, faults, witness, gen, unwind, timeout)"""
    defs = ['-DGEN="%s"' % os.path.basename(job['gen']), '-DNN=%d' % job['n'], '-DMM=%d' % job.get('m', 0), '-DS_' + job['scen'],
            '-DFAULTS=%d' % job.get('faults', 0)]
    if job.get('witness'):
        defs.append('-DWITNESS')
    if job.get('order'):
        defs.append('-DORDER')
    if job.get('faults') == 9:          # sub_mod against add_mod's contract
        defs.append('-DSKIP_mir_add_mod')
    cmd = ['cbmc', 'harness.c'] + defs + ['--unwind', str(job['unwind']), '--unwinding-assertions', '--object-bits', '12']
    if job.get('solver'):
        cmd.append(job['solver'])
    if job.get('trace'):
        cmd.append('--trace')
    # per-query memory cap (a query that needs more is undecided, never a pass): keeps 14 parallel queries inside the machine
    memcap = job.get('memcap_kb', 4500000)
    rc, out, dt = sh(['sh', '-c', 'ulimit -v %d; exec "$@"' % memcap, 'sh', 'timeout', str(job.get('timeout', 1800))] + cmd, cwd=BUILD, timeout=job.get('timeout', 1800) + 30)
    res = dict(job=job, cmd=' '.join(cmd), wall=dt, rc=rc)
    props = []
    for l in out.split('\n'):
        m = re.match(r'^\[(\S+)\] line (\d+) (.*): (SUCCESS|FAILURE|UNKNOWN|ERROR)$', l)
        if m:
            props.append((m.group(1), int(m.group(2)), m.group(3), m.group(4)))
    res['props'] = props
    ms = re.search(r'Runtime decision procedure: ([\d.]+)s', out)
    res['solver_s'] = sum(float(x) for x in re.findall(r'Runtime decision procedure: ([\d.]+)s', out))
    res['symex_s'] = sum(float(x) for x in re.findall(r'Runtime Symex: ([\d.]+)s', out))
    vm = re.search(r'Generated (\d+) VCC\(s\), (\d+) remaining', out)
    res['vccs'] = int(vm.group(1)) if vm else None
    if 'VERIFICATION SUCCESSFUL' in out:
        res['verdict'] = 'pass'
    elif 'VERIFICATION FAILED' in out:
        res['verdict'] = 'fail'
    else:
        res['verdict'] = 'error'
        res['tail'] = out[-1500:]
    if job.get('trace'):
        res['trace'] = out
    return res


def parse_cex(trace, prop_name):
    """values of the CEX_* variables in the trace of one failed property"""
    blocks = re.split(r'\nTrace for ', trace)
    blk = None
    for b in blocks[1:]:
        if b.startswith(prop_name + ':'):
            blk = b
            break
    if blk is None and len(blocks) > 1:
        blk = blocks[1]
    vals = {}
    if blk:
        for m in re.finditer(r'^\s*(CEX_\w+)=(\d+)', blk, re.M):
            vals[m.group(1)[4:]] = int(m.group(2))
    return vals


_bins = {}


def replayer(config='default'):
    """native replayer built against the repository in the given configuration (unstable needs the nightly toolchain)"""
    if config not in _bins:
        tdir = os.path.join(os.environ.get('VERIF_BUILD_DIR') or os.path.join(VERIF, 'build'), 'native-' + config)
        out = {}
        for prof, flag in (('dev', []), ('release', ['--release'])):
            cmd = ['cargo'] + (['+nightly'] if config == 'unstable' else []) + ['build', '--offline', '--bin', 'replay', '--target-dir', tdir] + flag
            if config == 'unstable':
                cmd += ['--features', 'unstable']
            rc, o, dt = sh(cmd, cwd=HARNESS, timeout=1800)
            if rc != 0:
                _bins[config] = (None, o[-600:])
                return _bins[config]
            out[prof] = os.path.join(tdir, 'debug' if prof == 'dev' else 'release', 'replay')
        _bins[config] = (out, '')
    return _bins[config]


def native_args(scen, n, m, cex):
    op = NATIVE_OP.get(scen)
    if op is None:
        return None
    a = ['e2', 'op=' + op, 'N=%d' % n, 'M=%d' % m]
    for k in ('start', 'size', 'a', 'b', 'start2', 'size2', 'kind', 'at'):
        a.append('%s=%d' % (k, cex.get(k, 0)))
    return a


def native_replay(scen, n, m, cex, config='default'):
    bins, err = replayer(config)
    if bins is None:
        return None, err
    args = native_args(scen, n, m, cex)
    if args is None:
        return None, 'no native counterpart'
    out = {}
    for prof, b in bins.items():
        rc, o, _ = sh([b] + args, timeout=120)
        lines = [l for l in o.split('\n') if l.startswith('E2')][:6]
        if rc in (134, -6):
            rc, lines = 1, ['E2VIOLATION the process aborted (a second panic while unwinding): ' + o.strip().split('\n')[-1][:120]]
        out[prof] = (rc, lines)
    return out, ''


def selftest(gen, ns, log, config='default'):
    """differential self-test of the encoding: gcc-compiled translation vs the real crate (native, real unwinding)"""
    bins, err = replayer(config)
    if bins is None:
        return 0, ['replayer does not build: ' + err]
    # the comparison is a pure function of the generated C, the runtime, the self-test driver and the native replayer
    # binary: its outcome is cached under a hash of exactly those, so that the eight checks with an E2 part do not
    # repeat it on an unchanged tree (the translation itself is regenerated on every run)
    import hashlib
    h = hashlib.sha256()
    for f in [gen, os.path.join(M2C, 'selftest.c'), os.path.join(M2C, 'rt_models.h'), os.path.join(M2C, 'rt_base.h'), bins['dev']]:
        h.update(open(f, 'rb').read())
    h.update(repr(ns).encode())
    cache = os.path.join(BUILD, 'selftest-%s.json' % h.hexdigest()[:24])
    if os.path.exists(cache):
        try:
            c = json.load(open(cache))
            return c['total'], c['problems']
        except Exception:
            pass
    total, problems = 0, []
    for n in ns:
        exe = os.path.join(BUILD, 'selftest_n%d' % n)
        rc, out, _ = sh(['gcc', '-O1', '-w', '-DGEN="%s"' % os.path.basename(gen), '-DNN=%d' % n, '-DMM=0', 'selftest.c', '-o', exe], cwd=BUILD, timeout=300)
        if rc != 0:
            problems.append('self-test does not compile at N=%d: %s' % (n, out[-300:]))
            continue
        rc1, c_out, _ = sh([exe], cwd=BUILD, timeout=600)
        rc2, r_out, _ = sh([bins['dev'], 'e2-sweep', str(n)], timeout=600)
        cl, rl = c_out.strip().split('\n'), r_out.strip().split('\n')
        if rc1 != 0 or rc2 != 0:
            problems.append('self-test run failed at N=%d (exit %d / %d)' % (n, rc1, rc2))
            continue
        total += len(rl)
        if cl != rl:
            d = [(a, b) for a, b in zip(cl, rl) if a != b][:2]
            problems.append('encoding disagrees with the real crate at N=%d on %d of %d cases, e.g. C: %s | native: %s' % (
                n, sum(1 for a, b in zip(cl, rl) if a != b) + abs(len(cl) - len(rl)), len(rl), d[0][0] if d else '?', d[0][1] if d else '?'))
    try:
        json.dump(dict(total=total, problems=problems), open(cache, 'w'))
    except Exception:
        pass
    return total, problems


def native_fallback(prop, tier, spec, res, quiet, cfg):
    """Where the translator met a construct it does not know, could not translate the tree at all, or a query ran into its
    time or memory cap, the solver path is undecided; the case space of the self-test is then run on the real crate and judged natively.  This can only *find* a
    violation (reported like any other natively reproduced counterexample); it never turns "undecided" into "held"."""
    if not (any(u.startswith('E2') for u in res['undecided']) and not quiet and not res['violations']):
        return
    modes = set(f for (_, f, _) in spec['jobs'][tier])
    kinds = '' if 0 in modes or (1 in modes and 2 in modes) else ('0,1' if 1 in modes else ('0,2,3,4,5' if 2 in modes else '0'))
    scens = set(sc for (sc, _, _) in spec['jobs'][tier])
    ops = set(NATIVE_OP.get(sc) for sc in scens)
    bins, err = replayer(cfg)
    if bins:
        for n in ([0, 1, 2, 3] if tier == 'quick' else [0, 1, 2, 3, 4]):
            rc, out, _ = sh([bins['dev'], 'e2-judge', str(n)] + ([kinds] if kinds else []), timeout=900)
            hit = None
            for l in out.split('\n'):
                m = re.match(r'^E2JUDGE (.*?) :: (.*)$', l)
                if m:
                    kv = dict(x.split('=') for x in m.group(1).split())
                    if kv['op'] in ops:
                        hit = (kv, m.group(2))
                        break
            if hit:
                kv, why = hit
                scen = [k for k, v in NATIVE_OP.items() if v == kv['op'] and k in scens][0]
                cex = {k: int(kv[k]) for k in ('start', 'size', 'a', 'b', 'start2', 'size2', 'kind', 'at')}
                nat, _e = native_replay(scen, int(kv['N']), int(kv['M']), cex, cfg)
                if nat and any(rc2 == 1 for rc2, _ in nat.values()):
                    rdir = os.path.join(os.environ.get('VERIF_REPLAY_DIR') or os.path.join(VERIF, 'replays'), prop)
                    os.makedirs(rdir, exist_ok=True)
                    path = os.path.join(rdir, 'e2_native_%s_n%s.json' % (scen.lower(), kv['N']))
                    json.dump(dict(engine='E2', property=prop, scenario=scen, n=int(kv['N']), m=int(kv['M']), check=why, cex=cex, native=nat,
                                   found_by='native judgement of the self-test case space (solver path undecided: unknown construct in the translation)'),
                              open(path, 'w'), indent=1)
                    res['violations'].append(dict(path=path, harness='E2/native %s N=%s' % (scen, kv['N']), check=why,
                                                  role='%s/%s' % (kv['op'], {1: 'drop-panic', 2: 'clone-panic', 3: 'closure-panic', 4: 'iterator-panic', 5: 'eq-panic', 0: 'no-fault'}.get(cex['kind'], 'fault'))))
                    res['notes'].append('solver path undecided (%s); the violation was found by running the self-test case space on the real crate' % res['undecided'][0][:120])
                    break


def run(prop, tier, spec, log, baseline=None, quiet=False):
    """spec: dict(tag, features, jobs=[(scen, faults, [N..] or [(N,M)..])], unwind)"""
    t0 = time.time()
    part = dict(engine='E2/mir2c+cbmc', config=spec.get('tag', 'std'), queries=0, query_list=[], models=MODELS)
    res = dict(part=part, violations=[], broken=[], undecided=[], notes=[], failing=set())
    gen, info = dump_and_translate(spec.get('features', ['std', 'alloc']), spec.get('tag', 'std'))
    part['translation'] = {k: v for k, v in info.items() if k != 'functions'}
    if gen is None:
        res['undecided'].append('E2: ' + info.get('error', 'translation failed'))
        native_fallback(prop, tier, spec, res, quiet, 'unstable' if 'unstable' in spec.get('features', []) else 'default')
        return res
    part['functions_translated'] = info['functions']
    cfg = 'unstable' if 'unstable' in spec.get('features', []) else 'default'
    part['native_config'] = cfg
    if spec.get('selftest', True):
        n_cases, problems = selftest(gen, [0, 1, 2, 3] if tier == 'quick' else [0, 1, 2, 3, 4], log, cfg)
        part['traces_validated_against_impl'] = n_cases
        part['selftest'] = '%d concrete cases (operation x layout x argument x fault) identical between the gcc-compiled translation and the real crate' % n_cases
        for pb in problems:
            res['broken'].append('E2 self-test: ' + pb)
        log('-- E2 self-test: %d cases compared with the real crate, %d problems' % (n_cases, len(problems)))
    jobs = []
    for (scen, faults, caps) in spec['jobs'][tier]:
        for c in caps:
            n, m = (c if isinstance(c, tuple) else (c, 0))
            unwind = spec.get('unwind', lambda n, m: max(3 * n + 8, m + 4, 18))(n, m)
            base = dict(scen=scen, n=n, m=m, faults=faults, gen=gen, unwind=unwind, order=spec.get('order', False), memcap_kb=(4500000 if tier == 'quick' else 6000000), timeout=spec.get('timeout', {}).get(tier, 600 if tier == 'quick' else 1800))
            jobs.append(dict(base, witness=False))
            jobs.append(dict(base, witness=True))
    if tier == 'thorough' and spec.get('second_solver', True):
        # second opinion: the small-capacity queries again with z3 as CBMC's back end; verdicts must agree
        jobs += [dict(j, solver='--z3', timeout=300) for j in list(jobs) if not j['witness'] and j['n'] <= 1 and j['scen'] not in ('ADD_MOD', 'SUB_MOD')]
    log('-- E2/mir2c config=%s: %d functions translated, %d CBMC queries' % (spec.get('tag', 'std'), len(info['functions']), len(jobs)))
    with concurrent.futures.ThreadPoolExecutor(max_workers=spec.get('workers', 14 if tier == 'quick' else 10)) as ex:
        results = list(ex.map(cbmc_job, jobs))
    wit = {}
    replayed = 0
    sat_verdict = {}
    for r in results:
        j = r['job']
        if j.get('solver'):
            continue
        sat_verdict[(j['scen'], j['n'], j['m'], j['faults'], j['witness'])] = r['verdict']
    agree = 0
    for r in results:
        j = r['job']
        if not j.get('solver'):
            continue
        part['queries'] += 1
        v0 = sat_verdict.get((j['scen'], j['n'], j['m'], j['faults'], j['witness']))
        if r['verdict'] == 'error':
            res['notes'].append('E2 second solver gave no verdict for %s N=%d (not counted)' % (j['scen'], j['n']))
        elif r['verdict'] != v0:
            res['broken'].append('E2 %s N=%d: SAT back end says %s, z3 says %s' % (j['scen'], j['n'], v0, r['verdict']))
        else:
            agree += 1
    if agree:
        part['second_solver'] = '%d queries repeated with cbmc --z3, same verdict' % agree
    for r in results:
        j = r['job']
        if j.get('solver'):
            continue
        key = '%s N=%d%s faults=%d%s' % (j['scen'], j['n'], (' M=%d' % j['m']) if j['scen'] == 'FROM_ARRAY' else '', j['faults'], ' witness' if j['witness'] else '')
        part['queries'] += 1
        unsupported_hit = [p for p in r['props'] if 'UNSUPPORTED' in p[2] and p[3] == 'FAILURE']
        unwind_fail = [p for p in r['props'] if 'unwinding assertion' in p[2] and p[3] == 'FAILURE']
        q = dict(engine='E2', query=key, unwind=j['unwind'], checks=len(r['props']), solver_s=round(r['solver_s'], 2), symex_s=round(r['symex_s'], 2),
                 vccs=r['vccs'], wall_s=round(r['wall'], 1), functions=[])
        if r['verdict'] == 'error':
            q['status'] = 'error'
            res['undecided'].append('E2 %s: CBMC gave no verdict (rc=%s) %s' % (key, r['rc'], r.get('tail', '')[-200:].replace('\n', ' | ')))
            part['query_list'].append(q)
            continue
        if unsupported_hit:
            q['status'] = 'undecided'
            res['undecided'].append('E2 %s: %s' % (key, unsupported_hit[0][2]))
            part['query_list'].append(q)
            continue
        if unwind_fail:
            q['status'] = 'broken'
            res['broken'].append('E2 %s: unwinding bound too small (%s)' % (key, unwind_fail[0][0]))
            part['query_list'].append(q)
            continue
        if j['witness']:
            for p in r['props']:
                if p[2].startswith('WITNESS '):
                    wit.setdefault((j['scen'], j['faults'], p[2][8:]), []).append(p[3])
            q['status'] = 'witness'
            part['query_list'].append(q)
            continue
        failed = [p for p in r['props'] if p[3] == 'FAILURE']
        if not failed and r['verdict'] == 'pass':
            q['status'] = 'pass'
            part['query_list'].append(q)
            continue
        q['status'] = 'fail'
        q['failed'] = ['%s (line %d)' % (p[2], p[1]) for p in failed[:5]]
        part['query_list'].append(q)
        fkeys = set((j['scen'], j['n'], j['m'], j['faults'], p[2]) for p in failed)
        res['failing'] |= fkeys
        if quiet:
            continue
        if baseline is not None:
            if fkeys <= baseline:
                res['notes'].append('E2 %s fails identically in the baseline configuration: equal behaviour, not a matter of this property' % key)
                q['status'] = 'pass'
                continue
            failed = [p for p in failed if (j['scen'], j['n'], j['m'], j['faults'], p[2]) not in baseline]
        if res['violations'] and replayed >= 1 or replayed >= 3:
            res['notes'].append('E2 %s also fails (%s); not replayed' % (key, failed[0][2]))
            continue
        replayed += 1
        # counterexample: read the recorded inputs from a trace and replay natively
        tr = cbmc_job(dict(j, trace=True))
        confirmed = None
        tried = []
        for p in failed[:4]:
            cex = parse_cex(tr.get('trace', ''), p[0])
            nat, err = native_replay(j['scen'], j['n'], j['m'], cex, cfg)
            tried.append(dict(check=p[2], cex=cex, native=nat, err=err))
            if nat and any(rc == 1 for rc, _ in nat.values()):
                confirmed = tried[-1]
                break
        if confirmed:
            rdir = os.path.join(os.environ.get('VERIF_REPLAY_DIR') or os.path.join(VERIF, 'replays'), prop)
            os.makedirs(rdir, exist_ok=True)
            path = os.path.join(rdir, 'e2_%s_n%d_m%d_f%d.json' % (j['scen'].lower(), j['n'], j['m'], j['faults']))
            rec = dict(engine='E2', property=prop, scenario=j['scen'], n=j['n'], m=j['m'], config=cfg, check=confirmed['check'], cex=confirmed['cex'],
                       native=confirmed['native'], replay='harness replay ' + ' '.join(native_args(j['scen'], j['n'], j['m'], confirmed['cex'])))
            json.dump(rec, open(path, 'w'), indent=1)
            role = '%s/%s' % (NATIVE_OP.get(j['scen'], j['scen']), {1: 'drop-panic', 2: 'clone-panic', 3: 'closure-panic', 4: 'iterator-panic', 0: 'no-fault'}.get(confirmed['cex'].get('kind', 0), 'fault'))
            res['violations'].append(dict(path=path, harness='E2 ' + key, check=confirmed['check'], role=role))
            q['replay'] = 'REPRODUCED natively'
        else:
            res['broken'].append('E2 %s: counterexample for "%s" does not reproduce natively: %s' % (key, failed[0][2], json.dumps(tried)[:600]))
            q['replay'] = 'NOT reproduced'
    # vacuity: every witness relevant for the fault class must be reachable for some capacity
    for (scen, faults, msg), sts in sorted(wit.items()):
        cls = re.match(r'^\[(\w+)\]', msg).group(1)
        if (cls == 'drop' and faults in (2, 3)) or (cls == 'user' and faults in (1, 3)):
            continue
        if 'FAILURE' not in sts:
            res['broken'].append('E2 vacuity: witness "%s" of %s (faults=%d) is unreachable at every capacity' % (msg, scen, faults))
    native_fallback(prop, tier, spec, res, quiet, cfg)
    part['witnesses'] = {'%s faults=%d: %s' % k: '%d of %d capacities reach it' % (v.count('FAILURE'), len(v)) for k, v in sorted(wit.items())}
    part['wall_s'] = round(time.time() - t0, 1)
    return res


def native_differential(prop, tier, log):
    """C18: the self-test case space on the real crate in the default and in the unstable build must print the same
    lines (results, contents, panics, destructor runs and their order); -> list of violation records"""
    (b0, e0), (b1, e1) = replayer('default'), replayer('unstable')
    if not b0 or not b1:
        return None, 'replayer does not build: %s %s' % (e0[-200:], e1[-200:])
    out, total = [], 0
    for n in ([0, 1, 2, 3] if tier == 'quick' else [0, 1, 2, 3, 4]):
        _, o0, _ = sh([b0['dev'], 'e2-sweep', str(n)], timeout=900)
        _, o1, _ = sh([b1['dev'], 'e2-sweep', str(n)], timeout=900)
        l0, l1 = o0.strip().split('\n'), o1.strip().split('\n')
        total += len(l0)
        for a, b in zip(l0, l1):
            if a != b:
                out.append((n, a, b))
        if len(l0) != len(l1):
            out.append((n, 'line counts differ', '%d vs %d' % (len(l0), len(l1))))
    return (out, total), ''


def replay(rec, log):
    if rec.get('differential'):
        for cfg in ('default', 'unstable'):
            bins, err = replayer(cfg)
            if not bins:
                log(err)
                return 2
            c = rec['case']
            rc, o, _ = sh([bins['dev'], 'e2'] + ['%s=%s' % kv for kv in c.items()], timeout=120)
            log('%s build: %s' % (cfg, ' | '.join(l for l in o.split('\n') if l.startswith('E2'))))
        log('VIOLATION property=%s replay=(the two builds print different lines above, if the difference persists)' % rec['property'])
        return 1
    nat, err = native_replay(rec['scenario'], rec['n'], rec['m'], rec['cex'], rec.get('config', 'default'))
    if nat is None:
        log(err)
        return 2
    bad = False
    for prof, (rc, lines) in nat.items():
        log('%s: exit=%d' % (prof, rc))
        for l in lines:
            log('   ' + l)
        if rc == 1:
            bad = True
    if bad:
        log('VIOLATION property=%s replay=%s' % (rec['property'], 'replays/%s/...' % rec['property']))
        return 1
    return 0
